//! Long periodic unrollings: streaming MiBs through the production Encoder (and
//! Encoder -> Decoder chained) under every call-size schedule / input method /
//! payload shape / drain API in a finite grid, checking after every call the C09
//! lag bound, the C10 footprint bound, stuff-freedom across drains and (chained)
//! that the decoded stream is the input stream.
use crate::codec::FullReader;
use hcobs::Decoder;
use hcobs::Encoder;
use mc_core::*;
use owning_iovec::ByteArena;
use std::io::Read;
use std::num::NonZeroUsize;
use std::sync::OnceLock;

pub const SIZES: [usize; 6] = [1, 100, 1000, 5000, 70_000, (1 << 20) + 1];

#[derive(Clone, Copy, Debug, PartialEq, Eq)]
pub enum Method {
    Copy,
    Borrow,
    EncodeRead,
    /// encode_read asking for 64 KiB with one attempt from a reader that first answers EINTR (the
    /// call fails and is retried) and then delivers only the scheduled few bytes: read errors and
    /// short reads interleaved, the way a slow pipe behaves
    EncodeReadFaulty,
    /// the block is read into a SEPARATE arena (a dedicated I/O arena, as a chunker or another codec
    /// would own) and handed over with encode_anchored: the encoder's own arena only holds headers
    AnchoredForeign,
}
pub const METHODS: [Method; 3] = [Method::Copy, Method::Borrow, Method::EncodeRead];
pub const ALL_METHODS: [Method; 5] = [Method::Copy, Method::Borrow, Method::EncodeRead, Method::EncodeReadFaulty, Method::AnchoredForeign];

struct EintrReader;
impl Read for EintrReader {
    fn read(&mut self, _dst: &mut [u8]) -> std::io::Result<usize> {
        Err(std::io::Error::new(std::io::ErrorKind::Interrupted, "eintr"))
    }
}

#[derive(Clone, Copy, Debug, PartialEq, Eq)]
pub enum Shape {
    NoStuff,
    StuffEvery100,
    AllFE,
    /// 200-byte period ending in FE: call boundaries regularly fall after an FE
    FEThenFD,
}
pub const SHAPES: [Shape; 4] = [Shape::NoStuff, Shape::StuffEvery100, Shape::AllFE, Shape::FEThenFD];

#[derive(Clone, Copy, Debug, PartialEq, Eq)]
pub enum DrainApi {
    ConsumeLen,
    AdvanceTotal,
    ReadSink,
}
pub const DRAINS: [DrainApi; 3] = [DrainApi::ConsumeLen, DrainApi::AdvanceTotal, DrainApi::ReadSink];

const PERIOD: usize = 600;

fn shape_byte(shape: Shape, i: usize) -> u8 {
    let i = i % PERIOD;
    match shape {
        Shape::NoStuff => 1 + (i % 200) as u8,
        Shape::StuffEvery100 => match i % 100 {
            98 => 0xFE,
            99 => 0xFD,
            j => 1 + j as u8,
        },
        Shape::AllFE => 0xFE,
        Shape::FEThenFD => match i % 200 {
            198 => 0xFE,
            199 => 0xFD,
            99 => 0xFE,
            j => 1 + (j % 97) as u8,
        },
    }
}

fn shape_buffer(shape: Shape) -> &'static [u8] {
    static BUFS: OnceLock<Vec<Vec<u8>>> = OnceLock::new();
    let bufs = BUFS.get_or_init(|| {
        SHAPES
            .iter()
            .map(|s| (0..PERIOD + (1 << 20) + 8).map(|i| shape_byte(*s, i)).collect())
            .collect()
    });
    &bufs[SHAPES.iter().position(|s| *s == shape).unwrap()]
}

#[derive(Clone, Debug)]
pub struct Config {
    pub schedule: Vec<usize>,
    pub method: Method,
    pub shape: Shape,
    pub drain: DrainApi,
    pub chained: bool,
    pub total: usize,
    pub max_calls: usize,
}

impl Config {
    pub fn render(&self) -> String {
        format!(
            "schedule={:?} method={:?} shape={:?} drain={:?} chained={} total={} max_calls={}",
            self.schedule, self.method, self.shape, self.drain, self.chained, self.total, self.max_calls
        )
    }
    pub fn parse(text: &str) -> Option<Config> {
        let get = |name: &str| -> Option<&str> {
            let start = text.find(&format!("{}=", name))? + name.len() + 1;
            let rest = &text[start..];
            let end = if rest.starts_with('[') { rest.find(']')? + 1 } else { rest.find(' ').unwrap_or(rest.len()) };
            Some(&rest[..end])
        };
        Some(Config {
            schedule: get("schedule")?.trim_matches(|c| c == '[' || c == ']').split(',').filter_map(|x| x.trim().parse().ok()).collect(),
            method: ALL_METHODS.iter().copied().find(|m| format!("{:?}", m) == get("method").unwrap_or(""))?,
            shape: SHAPES.iter().copied().find(|m| format!("{:?}", m) == get("shape").unwrap_or(""))?,
            drain: DRAINS.iter().copied().find(|m| format!("{:?}", m) == get("drain").unwrap_or(""))?,
            chained: get("chained")? == "true",
            total: get("total")?.parse().ok()?,
            max_calls: get("max_calls")?.parse().ok()?,
        })
    }
}

#[derive(Default, Debug)]
pub struct RunStats {
    pub calls: u64,
    pub streamed: u64,
    pub peak_live_bytes: usize,
    pub peak_by_third: [usize; 3],
    pub chunks_by_third: [usize; 3],
    pub peak_lag: usize,
    pub peak_chunks: usize,
    pub unit: usize,
}

/// Drains everything consumable from a consumer through the chosen API; returns the bytes.
fn drain_all(consumer: &mut owning_iovec::ConsumingIovec<'_>, api: DrainApi, sink: &mut Vec<u8>) -> Result<(), String> {
    sink.clear();
    let lens: Vec<usize> = consumer.stable_prefix().iter().map(|s| s.len()).collect();
    let stable: usize = lens.iter().sum();
    match api {
        DrainApi::ConsumeLen => {
            for s in consumer.stable_prefix() {
                sink.extend_from_slice(s);
            }
            let got = consumer.consume(lens.len());
            if got != lens.len() {
                return Err(format!("[prefix] consume({}) returned {}", lens.len(), got));
            }
        }
        DrainApi::AdvanceTotal => {
            for s in consumer.stable_prefix() {
                sink.extend_from_slice(s);
            }
            let got = consumer.advance_slices(stable);
            if got != stable {
                return Err(format!("[prefix] advance_slices({}) returned {}", stable, got));
            }
        }
        DrainApi::ReadSink => {
            sink.resize(stable + 8, 0);
            let got = consumer.read(sink).map_err(|e| e.to_string())?;
            if got != stable {
                return Err(format!("[prefix] read returned {} with {} stable bytes", got, stable));
            }
            sink.truncate(got);
        }
    }
    if !consumer.stable_prefix().is_empty() {
        return Err("[prefix] stable prefix not empty after draining all of it".into());
    }
    Ok(())
}

pub fn run_config(cfg: &Config) -> Result<RunStats, String> {
    match catch(|| run_config_inner(cfg)) {
        Ok(r) => r,
        Err(p) => Err(format!("panic: {}", p)),
    }
}

fn run_config_inner(cfg: &Config) -> Result<RunStats, String> {
    owning_iovec::verif::set_quarantine(false);
    owning_iovec::verif::reset_stats();
    let live0 = (ByteArena::num_live_chunks(), ByteArena::num_live_bytes());
    let buf = shape_buffer(cfg.shape);
    let largest = *cfg.schedule.iter().max().unwrap();
    let unit = (1usize << 20).max(largest.div_ceil(4096) * 4096);
    // Absolute ceilings (generous: the calibrated peaks are 2-3 units for the encoder and 5 for the
    // chain at the 1 MiB call size); the deciding check is the plateau test after the run.
    let bound = if cfg.chained { 8 * unit } else { 6 * unit };
    let mean_call = cfg.schedule.iter().sum::<usize>() / cfg.schedule.len();
    let planned = cfg.total.min(cfg.max_calls.saturating_mul(mean_call.max(1))).max(1);
    let mut stats = RunStats { unit, ..Default::default() };
    let mut enc: Encoder<'static> = Encoder::new();
    let mut io_arena = ByteArena::new();
    let mut dec: Option<Decoder<'static>> = if cfg.chained { Some(Decoder::new()) } else { None };
    let mut sink: Vec<u8> = Vec::new();
    let mut dsink: Vec<u8> = Vec::new();
    let mut pos = 0usize; // bytes fed so far
    let mut decoded_pos = 0usize; // bytes of the decoded stream verified so far
    let mut last_out_byte: Option<u8> = None;
    let mut step = 0usize;
    let check_decoded = |bytes: &[u8], decoded_pos: &mut usize| -> Result<(), String> {
        for b in bytes {
            if *b != shape_byte(cfg.shape, *decoded_pos) {
                return Err(format!("[roundtrip] decoded stream differs from the input at offset {}: {:#04x} expected {:#04x}", decoded_pos, b, shape_byte(cfg.shape, *decoded_pos)));
            }
            *decoded_pos += 1;
        }
        Ok(())
    };
    while pos < cfg.total && step < cfg.max_calls {
        let len = cfg.schedule[step % cfg.schedule.len()];
        let off = pos % PERIOD;
        let data: &'static [u8] = &buf[off..off + len];
        match cfg.method {
            Method::Copy => enc.encode_copy(data),
            Method::Borrow => enc.encode(data),
            Method::EncodeRead => {
                let n = enc.encode_read(FullReader(data), len, NonZeroUsize::MAX).map_err(|e| format!("encode_read failed: {}", e))?;
                if n != len {
                    return Err(format!("encode_read returned {} of {}", n, len));
                }
            }
            Method::AnchoredForeign => {
                let block = io_arena.read_n(FullReader(data), len, NonZeroUsize::MAX).map_err(|e| format!("read_n failed: {}", e))?;
                if block.slice().len() != len {
                    return Err(format!("read_n returned {} of {}", block.slice().len(), len));
                }
                enc.encode_anchored(block);
            }
            Method::EncodeReadFaulty => {
                let ask = 65_536usize.max(len);
                match enc.encode_read(EintrReader, ask, NonZeroUsize::new(1).unwrap()) {
                    Err(e) if e.kind() == std::io::ErrorKind::Interrupted => {}
                    other => return Err(format!("encode_read with an interrupted reader and one attempt returned {:?}", other.map_err(|e| e.kind()))),
                }
                let n = enc.encode_read(FullReader(data), ask, NonZeroUsize::new(1).unwrap()).map_err(|e| format!("encode_read failed: {}", e))?;
                if n != len {
                    return Err(format!("encode_read returned {} of {}", n, len));
                }
            }
        }
        pos += len;
        step += 1;
        // --- after the feed call (peak), then drain, then again
        let live = ByteArena::num_live_bytes() - live0.1;
        stats.peak_live_bytes = stats.peak_live_bytes.max(live);
        stats.peak_chunks = stats.peak_chunks.max(ByteArena::num_live_chunks() - live0.0);
        let third = (pos as u128 * 3 / (planned as u128 + 1)).min(2) as usize;
        stats.peak_by_third[third] = stats.peak_by_third[third].max(live);
        stats.chunks_by_third[third] = stats.chunks_by_third[third].max(ByteArena::num_live_chunks() - live0.0);
        if live > bound {
            return Err(format!("[footprint] {} live arena bytes after call {} ({} bytes streamed), bound {} = {} x max(1 MiB, largest call)", live, step, pos, bound, bound / unit));
        }
        {
            let mut consumer = enc.consumer();
            let stable: usize = consumer.stable_prefix().iter().map(|s| s.len()).sum();
            let lag = consumer.total_size() - stable;
            stats.peak_lag = stats.peak_lag.max(lag);
            let c = owning_iovec::verif::max_chunk_size_seen();
            if lag > c + 64008 + 2 {
                return Err(format!("[prefix] encoder lag: {} bytes produced but not consumable after call {} (largest arena chunk so far {}, bound = chunk + 64008 + 2)", lag, step, c));
            }
            drain_all(&mut consumer, cfg.drain, &mut sink)?;
        }
        // stuff-freedom across drains
        if let (Some(last), Some(first)) = (last_out_byte, sink.first()) {
            if last == 0xFE && *first == 0xFD {
                return Err(format!("[shape] output contains FE FD across two drains (after {} input bytes)", pos));
            }
        }
        if mc_core::refcodec::contains_stuff(&sink) {
            return Err(format!("[shape] output contains FE FD (after {} input bytes)", pos));
        }
        if let Some(l) = sink.last() {
            last_out_byte = Some(*l);
        }
        if let Some(dec) = dec.as_mut() {
            dec.decode_copy(&sink).map_err(|e| format!("[roundtrip] decoder rejected the encoder's output after {} input bytes: {}", pos, e))?;
            let mut consumer = dec.consumer();
            let stable: usize = consumer.stable_prefix().iter().map(|s| s.len()).sum();
            if stable != consumer.total_size() {
                return Err(format!("[prefix] decoder lag: {} of {} bytes consumable", stable, consumer.total_size()));
            }
            drain_all(&mut consumer, cfg.drain, &mut dsink)?;
            check_decoded(&dsink, &mut decoded_pos)?;
            let live = ByteArena::num_live_bytes() - live0.1;
            stats.peak_live_bytes = stats.peak_live_bytes.max(live);
            if live > bound {
                return Err(format!("[footprint] (chained) {} live arena bytes after call {}, bound {}", live, step, bound));
            }
        }
    }
    stats.calls = step as u64;
    stats.streamed = pos as u64;
    // Plateau: the footprint in the last third of the stream must not exceed the footprint in the
    // first third by more than one unit / two chunks (a leak per arena turn-over grows linearly).
    // (Live *bytes* are not compared across thirds: the arena's own chunk size ramps up from 4 KiB
    // to 1 MiB over the first turn-overs, which can take the whole stream when little is copied.
    // Bytes are bounded absolutely above; growth is detected on the chunk count, which does not ramp.)
    if stats.chunks_by_third[2] > stats.chunks_by_third[0] + 2 {
        return Err(format!("[footprint] grows with the stream: peak live chunks per third of the stream {:?}", stats.chunks_by_third));
    }
    if stats.peak_chunks > 16 {
        return Err(format!("[footprint] {} live arena chunks at once", stats.peak_chunks));
    }
    // finish: the rest of the output
    let out = enc.finish();
    let rest = out.flatten().map_err(|_| "finish left a placeholder pending".to_string())?;
    if let (Some(last), Some(first)) = (last_out_byte, rest.first()) {
        if last == 0xFE && *first == 0xFD {
            return Err("[shape] output contains FE FD across the early/late split".into());
        }
    }
    if mc_core::refcodec::contains_stuff(&rest) {
        return Err("[shape] finish() output contains FE FD".into());
    }
    if let Some(mut dec) = dec.take() {
        dec.decode_copy(&rest).map_err(|e| format!("[roundtrip] decoder rejected the tail: {}", e))?;
        let fin = dec.finish().map_err(|e| format!("[roundtrip] decoder finish failed: {}", e))?;
        let tail = fin.flatten().map_err(|_| "decoder output pending".to_string())?;
        check_decoded(&tail, &mut decoded_pos)?;
        if decoded_pos != pos {
            return Err(format!("[roundtrip] decoded {} bytes of {} streamed", decoded_pos, pos));
        }
    }
    drop(out);
    drop(io_arena);
    let live1 = (ByteArena::num_live_chunks(), ByteArena::num_live_bytes());
    if live1 != live0 {
        return Err(format!("[leak] arena leak after drop: live (chunks, bytes) {:?} -> {:?}", live0, live1));
    }
    Ok(stats)
}

pub fn schedules(max_len: usize) -> Vec<Vec<usize>> {
    let mut out: Vec<Vec<usize>> = Vec::new();
    let mut frontier: Vec<Vec<usize>> = vec![vec![]];
    for _ in 0..max_len {
        let mut next = Vec::new();
        for s in &frontier {
            for z in SIZES {
                let mut t = s.clone();
                t.push(z);
                next.push(t);
            }
        }
        out.extend(next.iter().cloned());
        frontier = next;
    }
    out
}

pub fn run(ctx: &Ctx, rep: &mut Report, unit: &mut usize) {
    run_grid(ctx, rep, unit, false)
}

/// The round-trip clause of C01 on long streams: the chained (encoder -> decoder) half of the
/// grid for single-size schedules, drained after every call.
pub fn run_roundtrip(ctx: &Ctx, rep: &mut Report, unit: &mut usize) {
    run_grid(ctx, rep, unit, true)
}

fn run_grid(ctx: &Ctx, rep: &mut Report, unit: &mut usize, roundtrip_only: bool) {
    let prop = ctx.prop.clone();
    let max_len = if roundtrip_only { 1 } else { ctx.tier.pick(2, 3) };
    let total = if roundtrip_only { ctx.tier.pick(2usize << 20, 32 << 20) } else { ctx.tier.pick(8usize << 20, 64 << 20) };
    let max_calls = ctx.tier.pick(100_000usize, 2_000_000);
    let scheds = schedules(max_len);
    let mut configs = 0u64;
    let mut grid: Vec<Config> = Vec::new();
    for sched in &scheds {
        for method in METHODS {
            for shape in SHAPES {
                for drain in DRAINS {
                    for chained in [false, true] {
                        if roundtrip_only && (!chained || drain == DrainApi::ConsumeLen) {
                            continue;
                        }
                        // very long unrollings for the largest calls only in the thorough tier
                        let big = sched.iter().any(|z| *z > 60_000);
                        let cfg = Config { schedule: sched.clone(), method, shape, drain, chained, total: if big && ctx.tier == Tier::Thorough { 256 << 20 } else { total }, max_calls };
                        if big && ctx.tier == Tier::Thorough && !(shape == Shape::NoStuff || drain == DrainApi::AdvanceTotal) {
                            // keep the 256 MiB runs to a third of the grid
                            continue;
                        }
                        grid.push(cfg);
                    }
                }
            }
        }
    }
    // read faults: EINTR failures interleaved with short reads
    for sched in if roundtrip_only { vec![vec![1000usize, 16]] } else { vec![vec![16usize], vec![100], vec![1000, 16], vec![5000]] } {
        for shape in SHAPES {
            for drain in DRAINS {
                for chained in [false, true] {
                    if roundtrip_only && !chained {
                        continue;
                    }
                    grid.push(Config { schedule: sched.clone(), method: Method::EncodeReadFaulty, shape, drain, chained, total, max_calls: max_calls / 4 });
                }
            }
        }
    }
    // blocks read through a separate I/O arena and handed over anchored (borrowed: > 256 bytes)
    if !roundtrip_only {
        for sched in [vec![1000usize], vec![5000], vec![70_000], vec![5000, 1000]] {
            for shape in SHAPES {
                for chained in [false, true] {
                    grid.push(Config { schedule: sched.clone(), method: Method::AnchoredForeign, shape, drain: DrainApi::AdvanceTotal, chained, total, max_calls });
                }
            }
        }
    }
    {
        {
            {
                {
                    for cfg in grid {
                        let u = *unit;
                        *unit += 1;
                        if !ctx.owns(u) {
                            continue;
                        }
                        let (sched, method, shape, drain, chained) = (&cfg.schedule, cfg.method, cfg.shape, cfg.drain, cfg.chained);
                        configs += 1;
                        rep.evaluations += 1;
                        match run_config(&cfg) {
                            Ok(stats) => {
                                rep.transitions += stats.calls;
                                rep.nontrivial += 1;
                                rep.count("streaming_calls", stats.calls);
                                rep.count("streamed_mib", stats.streamed >> 20);
                                rep.count_max("max_peak_live_bytes_in_units_x100", (stats.peak_live_bytes * 100 / stats.unit) as u64);
                                rep.count_max("max_peak_lag_bytes", stats.peak_lag as u64);
                                rep.count_max("max_live_chunks", stats.peak_chunks as u64);
                                // plateau evidence: last third not above first third + one unit
                                rep.count_max("max_last_third_minus_first_third_bytes", stats.peak_by_third[2].saturating_sub(stats.peak_by_third[0]) as u64);
                                rep.outcome(hash_of(&(stats.peak_live_bytes * 4 / stats.unit, stats.peak_chunks, chained)));
                                rep.state(hash_of(&(sched, format!("{:?}{:?}{:?}{}", method, shape, drain, chained))));
                                if std::env::var("VERIF_DEBUG_PEAKS").is_ok() && stats.peak_live_bytes * 100 / stats.unit > 330 {
                                    eprintln!("PEAK {:.2} units chunks={} lag={} :: {}", stats.peak_live_bytes as f64 / stats.unit as f64, stats.peak_chunks, stats.peak_lag, cfg.render());
                                }
                                if rep.want_sample() {
                                    rep.sample(format!("{} => {} calls, {} MiB, peak live {} bytes ({:.2} units), peak lag {}, thirds {:?}", cfg.render(), stats.calls, stats.streamed >> 20, stats.peak_live_bytes, stats.peak_live_bytes as f64 / stats.unit as f64, stats.peak_lag, stats.peak_by_third));
                                }
                            }
                            Err(e) if !relevant(&e) => {
                                rep.count("cases_failing_only_a_sibling_oracle", 1);
                            }
                            Err(e) => {
                                let again = run_config(&cfg).is_err();
                                if !again {
                                    machinery_failure(&format!("streaming violation did not reproduce: {} / {}", cfg.render(), e));
                                }
                                let r = cfg.render();
                                rep.violation(Violation { key: format!("{}:stream:{}", prop, r.replace(' ', ";")), summary: format!("streaming [{}]: {}", r, e), replay_text: format!("stream: {}\nobserved: {}\n", r, e) });
                            }
                        }
                    }
                }
            }
        }
    }
    rep.count("streaming_configs", configs);
    rep.note(format!(
        "streaming: every call-size schedule of length <= {} over {:?} x {{copy, borrow, encode_read}} x 4 payload shapes x 3 drain APIs x {{encoder, encoder->decoder chained}}, plus 4 small-call schedules through encode_read(64 KiB, 1 attempt) from a reader that fails with EINTR before every short delivery, each repeated cyclically until {} MiB (or {} calls) were streamed with a full drain after every call; bounds: live arena bytes <= 6 (chained: 8) x max(1 MiB, largest call) after every call, peak live chunks in the last third <= first third + 2, <= 16 chunks ever; encoder lag <= largest arena chunk + 64008 + 2, decoder lag = 0, no FE FD across drains, decoded stream == input stream, no leak after drop",
        max_len,
        SIZES,
        total >> 20,
        max_calls
    ));
}

pub fn replay(text: &str) -> Result<String, String> {
    let Some(cfg) = field(text, "stream").and_then(Config::parse) else {
        machinery_failure("cannot parse streaming config");
    };
    match run_config(&cfg) {
        Err(e) => Ok(e),
        Ok(stats) => Err(format!("within bounds: {:?}", stats)),
    }
}
