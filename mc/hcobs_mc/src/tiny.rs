//! Small-scope tiers at tiny chunk limits (hook H2): every input over a
//! critical alphabet up to a length bound x every segmentation x input methods
//! x drain schedules, on both the encoder and the decoder.
use crate::codec::*;
use mc_core::refcodec;
use mc_core::*;

pub const LIMIT_PAIRS: [(usize, usize); 3] = [(1, 1), (2, 3), (3, 5)];
/// FE, FD, a byte below FD, the byte above FE, the byte just below FD.
pub const ALPHA5: [u8; 5] = [0xFE, 0xFD, 0x00, 0xFF, 0xFC];
pub const ALPHA4: [u8; 4] = [0xFE, 0xFD, 0x00, 0xFF];
/// Decoder alphabet: header digits 0..6, out-of-radix bytes, payload bytes.
pub const DEC_ALPHA: [u8; 10] = [0, 1, 2, 3, 5, 6, 0xFC, 0xFD, 0xFE, 0xFF];

#[derive(Clone, Copy, PartialEq, Eq, Debug)]
pub enum Focus {
    RoundTrip, // C01
    Output,    // C02
    Format,    // C07
    Drain,     // C09
}

pub struct CaseId<'a> {
    pub side: &'static str,
    pub limits: Limits,
    pub data: &'a [u8],
    pub pieces: &'a [Piece],
    pub prefill: bool,
}

impl CaseId<'_> {
    pub fn render(&self) -> String {
        format!(
            "side={} limits={} prefill={} data=[{}] pieces=[{}]",
            self.side,
            match self.limits {
                None => "prod".to_string(),
                Some((a, b)) => format!("{},{}", a, b),
            },
            self.prefill,
            hex_full(self.data),
            render_pieces(self.pieces)
        )
    }
}

/// Run-length hex that always round-trips (unlike mc_core::hex for long inputs).
pub fn hex_full(bytes: &[u8]) -> String {
    let mut out: Vec<String> = Vec::new();
    let mut i = 0;
    while i < bytes.len() {
        let mut j = i;
        while j < bytes.len() && bytes[j] == bytes[i] {
            j += 1;
        }
        if j - i > 3 {
            out.push(format!("{:02X}x{}", bytes[i], j - i));
        } else {
            for _ in i..j {
                out.push(format!("{:02X}", bytes[i]));
            }
        }
        i = j;
    }
    out.join(" ")
}

pub fn parse_case(text: &str) -> Option<(String, Limits, bool, Vec<u8>, Vec<Piece>)> {
    let side = text.split("side=").nth(1)?.split(' ').next()?.to_string();
    let limits = text.split("limits=").nth(1)?.split(' ').next()?;
    let limits = if limits == "prod" {
        None
    } else {
        let (a, b) = limits.split_once(',')?;
        Some((a.parse().ok()?, b.parse().ok()?))
    };
    let prefill = text.split("prefill=").nth(1)?.split(' ').next()? == "true";
    let data = text.split("data=[").nth(1)?.split(']').next()?;
    let pieces = text.split("pieces=[").nth(1)?.split(']').next()?;
    Some((side, limits, prefill, unhex(data)?, parse_pieces(pieces)?))
}

pub const PREFILL: &[u8] = b"PRE";

thread_local! {
    /// (limits, input) -> output of the single-call, copy-only, undrained run on the real encoder
    static BASELINE: std::cell::RefCell<Option<(Limits, Vec<u8>, Option<Vec<u8>>)>> = const { std::cell::RefCell::new(None) };
}

/// The real encoder's output for `input` fed in one copied call (None if that run itself fails).
pub fn baseline_output(input: &[u8], limits: Limits) -> Option<Vec<u8>> {
    let cached = BASELINE.with(|b| match &*b.borrow() {
        Some((l, i, out)) if *l == limits && i.as_slice() == input => Some(out.clone()),
        _ => None,
    });
    if let Some(out) = cached {
        return out;
    }
    let pieces = [Piece { lo: 0, hi: input.len(), m: M::Copy, d: D::None }];
    let out = catch(|| run_encode(input, &pieces, limits, &[], &mut Obs::default())).ok().and_then(|r| r.ok());
    owning_iovec::verif::drain_quarantine();
    BASELINE.with(|b| *b.borrow_mut() = Some((limits, input.to_vec(), out.clone())));
    out
}

/// The stream to feed a decoder that must give `input` back: the real encoder's output when the
/// round-trip oracle is on (C01 is about the real codec on both sides), else the canonical encoding.
pub fn stream_for(input: &[u8], limits: Limits) -> Vec<u8> {
    let (first, later) = limits_of(limits);
    if oracle(Oracle::RoundTrip) {
        if let Some(out) = baseline_output(input, limits) {
            return out;
        }
    }
    refcodec::encode(input, first, later)
}

/// One encoder case: run, judge.  Err = violation description.
pub fn enc_case(input: &[u8], pieces: &[Piece], limits: Limits, prefill: bool, obs: &mut Obs) -> Result<(), String> {
    set_breadcrumb(format!("case: {}\n", CaseId { side: "enc", limits, data: input, pieces, prefill }.render()).as_bytes());
    let r = catch(|| -> Result<(), String> {
        let out = run_encode(input, pieces, limits, if prefill { PREFILL } else { &[] }, obs)?;
        let mut failures: Vec<String> = Vec::new();
        if let Err(e) = judge_encoding(input, &out, limits) {
            failures.push(e);
        }
        if oracle(Oracle::OutputShape) {
            // a function of the concatenated input only: same as the single copied, undrained call
            if let Some(base) = baseline_output(input, limits) {
                if base != out {
                    failures.push(format!("[shape] output depends on how the input was split / fed / drained: [{}] here, [{}] for a single copied call", hex(&out), hex(&base)));
                }
            }
        }
        if oracle(Oracle::RoundTrip) {
            let whole = [Piece { lo: 0, hi: out.len(), m: M::Borrow, d: D::None }];
            match run_decode(&out, &whole, limits, &[], &mut Obs::default()) {
                Ok(Some(back)) if back == input => {}
                Ok(Some(back)) => failures.push(format!("[roundtrip] decoding the encoder's output gives [{}] instead of the input", hex(&back))),
                Ok(None) => failures.push("[roundtrip] the decoder rejects the encoder's output".to_string()),
                Err(e) => failures.push(e),
            }
        }
        match failures.iter().find(|f| relevant(f)) {
            Some(f) => Err(f.clone()),
            None => match failures.into_iter().next() {
                Some(f) => Err(f),
                None => Ok(()),
            },
        }
    });
    owning_iovec::verif::drain_quarantine();
    match r {
        Ok(r) => r,
        Err(p) => Err(format!("panic: {}", p)),
    }
}

/// One decoder case on an arbitrary byte string: verdict and output must equal the reference
/// decoder ([canon]); when `must_give` is set the stream is an encoder output and decoding it
/// must give exactly those bytes back ([roundtrip]).
pub fn dec_case_expect(encoded: &[u8], pieces: &[Piece], limits: Limits, prefill: bool, obs: &mut Obs, must_give: Option<&[u8]>) -> Result<bool, String> {
    let (first, later) = limits_of(limits);
    let want = refcodec::decode(encoded, first, later);
    set_breadcrumb(format!("case: {}\n", CaseId { side: "dec", limits, data: encoded, pieces, prefill }.render()).as_bytes());
    let r = catch(|| run_decode(encoded, pieces, limits, if prefill { PREFILL } else { &[] }, obs));
    owning_iovec::verif::drain_quarantine();
    let got = match r {
        Err(p) => return Err(format!("panic: {}", p)),
        Ok(Err(e)) => return Err(e),
        Ok(Ok(got)) => got,
    };
    let mut failures: Vec<String> = Vec::new();
    if let Some(input) = must_give {
        match &got {
            Some(g) if g.as_slice() == input => {}
            Some(g) => failures.push(format!("[roundtrip] decoding gives [{}] instead of the original bytes", hex(g))),
            None => failures.push("[roundtrip] the decoder rejects an encoder output".to_string()),
        }
    }
    match (&got, &want) {
        (None, None) => {}
        (Some(g), Some(w)) if g == w => {}
        (Some(g), Some(w)) => failures.push(format!("[canon] decoded [{}] expected [{}]", hex(g), hex(w))),
        (Some(g), None) => failures.push(format!("[canon] accepted a byte string the format rejects (decoded to [{}])", hex(g))),
        (None, Some(w)) => failures.push(format!("[canon] rejected a well-formed encoding (of [{}])", hex(w))),
    }
    match failures.iter().find(|f| relevant(f)) {
        Some(f) => Err(f.clone()),
        None => match failures.into_iter().next() {
            Some(f) => Err(f),
            None => Ok(got.is_some()),
        },
    }
}

pub fn dec_case(encoded: &[u8], pieces: &[Piece], limits: Limits, prefill: bool, obs: &mut Obs) -> Result<bool, String> {
    dec_case_expect(encoded, pieces, limits, prefill, obs, None)
}

pub fn record(rep: &mut Report, prop: &str, id: &CaseId, err: &str, reproduces: bool) {
    if !relevant(err) {
        // only a sibling property's oracle fails on this case: not this check's alarm
        rep.count("cases_failing_only_a_sibling_oracle", 1);
        return;
    }
    if !reproduces {
        machinery_failure(&format!("violation did not reproduce: {} / {}", id.render(), err));
    }
    let r = id.render();
    rep.violation(Violation {
        key: format!("{}:{}", prop, r.replace(' ', ";")),
        summary: format!("hcobs [{}]: {}", r, err),
        replay_text: format!("case: {}\nobserved: {}\n", r, err),
    });
}

/// All segmentations of [0, n) into three (possibly empty) consecutive pieces.
fn three_way(n: usize) -> Vec<(usize, usize)> {
    let mut v = Vec::new();
    for i in 0..=n {
        for j in i..=n {
            v.push((i, j));
        }
    }
    v
}

fn pieces3(n: usize, i: usize, j: usize, m: [M; 3], d: [D; 3]) -> Vec<Piece> {
    let mut v = Vec::new();
    let bounds = [(0, i), (i, j), (j, n)];
    for (k, (lo, hi)) in bounds.iter().enumerate() {
        // empty leading / trailing pieces are dropped; an empty MIDDLE piece (i == j) is kept: a
        // zero-length call between two pieces is legal and must change nothing
        if lo == hi && k != 1 {
            continue;
        }
        if lo == hi && k == 1 && (i == 0 || i == n) {
            continue;
        }
        v.push(Piece { lo: *lo, hi: *hi, m: m[k], d: d[k] });
    }
    v
}

const M3: [M; 3] = [M::Borrow, M::Copy, M::Anchored];

struct Tally<'a> {
    rep: &'a mut Report,
    prop: &'a str,
}

impl Tally<'_> {
    fn enc(&mut self, input: &[u8], pieces: &[Piece], limits: Limits, prefill: bool, obs: &mut Obs) {
        self.rep.evaluations += 1;
        self.rep.transitions += pieces.len() as u64 + 1;
        if let Err(e) = enc_case(input, pieces, limits, prefill, obs) {
            let mut o2 = Obs::default();
            let again = enc_case(input, pieces, limits, prefill, &mut o2).is_err();
            record(self.rep, self.prop, &CaseId { side: "enc", limits, data: input, pieces, prefill }, &e, again);
        } else if pieces.len() > 1 {
            self.rep.nontrivial += 1;
        }
    }
    fn dec(&mut self, encoded: &[u8], pieces: &[Piece], limits: Limits, prefill: bool, obs: &mut Obs, must_accept: Option<&[u8]>) {
        self.rep.evaluations += 1;
        self.rep.transitions += pieces.len() as u64 + 1;
        let verdict = |obs: &mut Obs| -> Result<bool, String> { dec_case_expect(encoded, pieces, limits, prefill, obs, must_accept) };
        match verdict(obs) {
            Err(e) => {
                let again = verdict(&mut Obs::default()).is_err();
                record(self.rep, self.prop, &CaseId { side: "dec", limits, data: encoded, pieces, prefill }, &e, again);
            }
            Ok(acc) => {
                if acc {
                    self.rep.count("decoder_accepts", 1);
                }
                if pieces.len() > 1 {
                    self.rep.nontrivial += 1;
                }
            }
        }
    }
}

/// Everything for one plain input at one limit pair.
fn one_input(rep: &mut Report, prop: &str, focus: Focus, input: &[u8], limits: Limits, states: &mut StateCover) {
    let (first, later) = limits_of(limits);
    let n = input.len();
    let canon = refcodec::encode(input, first, later);
    let mut obs = Obs::default();
    let mut t = Tally { rep, prop };
    // single call, copy only, undrained: the baseline of split independence
    t.enc(input, &[Piece { lo: 0, hi: n, m: M::Copy, d: D::None }], limits, false, &mut obs);
    let methods_full = matches!(focus, Focus::RoundTrip | Focus::Output);
    let drains_full = matches!(focus, Focus::Drain | Focus::Output);
    // --- encoder: all 3-way segmentations x method masks
    for (i, j) in three_way(n) {
        if methods_full {
            for a in M3 {
                for b in M3 {
                    for c in M3 {
                        let pieces = pieces3(n, i, j, [a, b, c], [D::None; 3]);
                        t.enc(input, &pieces, limits, false, &mut obs);
                    }
                }
            }
            let pieces = pieces3(n, i, j, [M::Read; 3], [D::None; 3]);
            t.enc(input, &pieces, limits, (i + j) % 2 == 0, &mut obs);
        } else {
            for m in METHODS {
                let pieces = pieces3(n, i, j, [m; 3], [D::None; 3]);
                t.enc(input, &pieces, limits, false, &mut obs);
            }
        }
    }
    // --- round trip under incremental draining (C01's last sentence): 2-way segmentations x
    //     {borrow, copy} x a reduced set of drain pairs that covers every drain API once
    if focus == Focus::RoundTrip {
        for i in 0..=n {
            for m in [M::Borrow, M::Copy] {
                for d1 in [D::Read2, D::ReadAll, D::Advance1, D::Consume1] {
                    for d2 in [D::None, D::Read2, D::ConsumePlus1, D::AdvanceAll] {
                        let pieces = pieces3(n, i, n, [m; 3], [d1, d2, D::None]);
                        t.enc(input, &pieces, limits, false, &mut obs);
                    }
                }
            }
        }
    }
    if focus == Focus::RoundTrip {
        // pipelined anchored reads under incremental draining (the statement covers drained output)
        for (i, j) in three_way(n) {
            for d1 in [D::None, D::ConsumeAll, D::AdvanceAll] {
                for d2 in [D::ConsumeAll, D::AdvanceAll] {
                    let pieces = pieces3(n, i, j, [M::Prefetched; 3], [d1, d2, D::None]);
                    t.enc(input, &pieces, limits, false, &mut obs);
                }
            }
        }
    }
    // --- encoder: 2-way segmentations x uniform methods x all drain pairs
    if drains_full {
        // pipelined anchored reads: 3 pieces, each read before the previous one's drain
        for (i, j) in if matches!(focus, Focus::Drain | Focus::RoundTrip) { three_way(n) } else { Vec::new() } {
            for d1 in [D::None, D::ConsumeAll, D::AdvanceAll] {
                for d2 in [D::ConsumeAll, D::AdvanceAll] {
                    let pieces = pieces3(n, i, j, [M::Prefetched; 3], [d1, d2, D::None]);
                    t.enc(input, &pieces, limits, false, &mut obs);
                }
            }
        }
        // over-asking drains (a consumer that asks for more than it was shown must get only what is consumable)
        for i in 0..=n {
            for m in [M::Borrow, M::Copy] {
                for d1 in OVER_DRAINS {
                    for d2 in [D::None, D::ConsumePlus1, D::AdvancePlus1, D::ReadAll] {
                        let pieces = pieces3(n, i, n, [m; 3], [d1, d2, D::None]);
                        t.enc(input, &pieces, limits, false, &mut obs);
                    }
                }
            }
        }
        for i in 0..=n {
            for m in [M::Borrow, M::Copy, M::Anchored, M::Prefetched] {
                if m == M::Prefetched && focus != Focus::Drain {
                    continue;
                }
                for d1 in DRAINS {
                    for d2 in DRAINS {
                        let pieces = pieces3(n, i, n, [m; 3], [d1, d2, D::None]);
                        t.enc(input, &pieces, limits, false, &mut obs);
                    }
                }
            }
        }
    }
    // --- decoder on the encoding (the real encoder's output when the round-trip oracle is on,
    //     the canonical one otherwise): must accept and give back the input
    let stream = stream_for(input, limits);
    let _ = &canon;
    let e = stream.as_slice();
    let en = e.len();
    for (i, j) in three_way(en) {
        if methods_full || focus == Focus::Format {
            for m in METHODS {
                let pieces = pieces3(en, i, j, [m; 3], [D::None; 3]);
                t.dec(e, &pieces, limits, m == M::Copy && (i + j) % 3 == 0, &mut obs, Some(input));
            }
            if methods_full {
                let pieces = pieces3(en, i, j, [M::Borrow, M::Anchored, M::Copy], [D::None; 3]);
                t.dec(e, &pieces, limits, false, &mut obs, Some(input));
                let pieces = pieces3(en, i, j, [M::Anchored, M::Copy, M::Borrow], [D::None; 3]);
                t.dec(e, &pieces, limits, false, &mut obs, Some(input));
            }
        }
        if matches!(focus, Focus::Drain | Focus::RoundTrip) {
            for d1 in [D::None, D::ConsumeAll, D::AdvanceAll] {
                for d2 in [D::ConsumeAll, D::AdvanceAll] {
                    let pieces = pieces3(en, i, j, [M::Prefetched; 3], [d1, d2, D::None]);
                    t.dec(e, &pieces, limits, false, &mut obs, Some(input));
                }
            }
        }
        if drains_full && j == en {
            for d1 in DRAINS {
                for d2 in DRAINS {
                    for m in [M::Borrow, M::Copy, M::Prefetched] {
                        if m == M::Prefetched && focus != Focus::Drain {
                            continue;
                        }
                        let pieces = pieces3(en, i, en, [m; 3], [d1, d2, D::None]);
                        t.dec(e, &pieces, limits, false, &mut obs, Some(input));
                    }
                }
            }
        }
    }
    states.absorb(&obs, limits);
}

/// Distinct codec states reached (hook H2 keys), per limit pair.
#[derive(Default)]
pub struct StateCover {
    pub seen: std::collections::HashSet<u64>,
}
impl StateCover {
    pub fn absorb(&mut self, obs: &Obs, limits: Limits) {
        for s in &obs.enc_states {
            self.seen.insert(hash_of(&("enc", limits, s)));
        }
        for s in &obs.dec_states {
            self.seen.insert(hash_of(&("dec", limits, s)));
        }
    }
}

fn strings_over(alpha: &[u8], len: usize, mut f: impl FnMut(&[u8])) {
    let mut buf = vec![0u8; len];
    let total = alpha.len().pow(len as u32);
    for code in 0..total {
        let mut c = code;
        for slot in buf.iter_mut() {
            *slot = alpha[c % alpha.len()];
            c /= alpha.len();
        }
        f(&buf);
    }
}

/// Tier 1: all inputs over the critical alphabets up to the length bounds.
pub fn tier1(ctx: &Ctx, rep: &mut Report, focus: Focus, unit: &mut usize) {
    let (len5, len4) = match (focus, ctx.tier) {
        (Focus::RoundTrip, Tier::Quick) => (5, 6),
        (Focus::RoundTrip, Tier::Thorough) => (6, 8),
        (Focus::Output, Tier::Quick) => (4, 6),
        (Focus::Output, Tier::Thorough) => (5, 7),
        (Focus::Format, Tier::Quick) => (5, 6),
        (Focus::Format, Tier::Thorough) => (6, 9),
        (Focus::Drain, Tier::Quick) => (4, 5),
        (Focus::Drain, Tier::Thorough) => (5, 7),
    };
    // the C05 / C10 clauses reuse this tier with shorter inputs (their deciding families are elsewhere)
    let (len5, len4) = if matches!(ctx.prop.as_str(), "C05" | "C10") { (len5.min(3), len4.min(5)) } else { (len5, len4) };
    let mut states = StateCover::default();
    let prop = ctx.prop.clone();
    let mut count = 0u64;
    for (li, lim) in LIMIT_PAIRS.iter().enumerate() {
        let limits = Some(*lim);
        for len in 0..=len4 {
            let alpha: &[u8] = if len <= len5 { &ALPHA5 } else { &ALPHA4 };
            strings_over(alpha, len, |input| {
                let u = *unit;
                *unit += 1;
                if !ctx.owns(u) {
                    return;
                }
                count += 1;
                one_input(rep, &prop, focus, input, limits, &mut states);
                if rep.want_sample() {
                    rep.sample(format!("limits {:?} input [{}] -> canonical [{}], all segmentations x methods x drains", lim, hex(input), hex(&refcodec::encode(input, lim.0, lim.1))));
                }
                rep.outcome(hash_of(&(li, refcodec::encode(input, lim.0, lim.1).len(), input.windows(2).filter(|w| *w == refcodec::STUFF).count())));
            });
        }
    }
    for s in &states.seen {
        rep.state(*s);
    }
    rep.count("tier1_inputs", count);
    rep.max_depth = rep.max_depth.max(len4 as u64);
    rep.note(format!(
        "tier 1 (tiny limits {:?}): all inputs over {:02X?} up to length {} and over {:02X?} up to length {}; encoder: all 3-way segmentations x method masks{}; decoder on the canonical encoding: all 3-way segmentations x methods{}",
        LIMIT_PAIRS,
        ALPHA5,
        len5,
        ALPHA4,
        len4,
        if matches!(focus, Focus::Drain | Focus::Output) { " + all 2-way segmentations x all 36 drain pairs" } else { "" },
        if matches!(focus, Focus::Drain | Focus::Output) { " + drain pairs" } else { "" }
    ));
}

/// C07 decoder half at tiny limits: ALL byte strings over the decoder alphabet.
pub fn decoder_accept_set(ctx: &Ctx, rep: &mut Report, unit: &mut usize) {
    let max_len = ctx.tier.pick(6, 7);
    let prop = ctx.prop.clone();
    let mut states = StateCover::default();
    for lim in [(2usize, 3usize), (3, 5), (1, 1)] {
        let limits = Some(lim);
        for len in 0..=max_len {
            if lim == (1, 1) && len > max_len - 1 {
                continue;
            }
            strings_over(&DEC_ALPHA, len, |enc| {
                let u = *unit;
                *unit += 1;
                if !ctx.owns(u) {
                    return;
                }
                let mut obs = Obs::default();
                let mut t = Tally { rep, prop: &prop };
                let n = enc.len();
                // whole, every 2-way split with both methods, and every 3-way split for short strings
                t.dec(enc, &[Piece { lo: 0, hi: n, m: M::Borrow, d: D::None }], limits, false, &mut obs, None);
                for i in 1..n {
                    for m in [M::Borrow, M::Copy] {
                        let pieces = [Piece { lo: 0, hi: i, m, d: D::None }, Piece { lo: i, hi: n, m, d: D::None }];
                        t.dec(enc, &pieces, limits, false, &mut obs, None);
                        // the same with a zero-length call in between
                        let pieces = [Piece { lo: 0, hi: i, m, d: D::None }, Piece { lo: i, hi: i, m, d: D::None }, Piece { lo: i, hi: n, m, d: D::None }];
                        t.dec(enc, &pieces, limits, false, &mut obs, None);
                    }
                }
                if n <= 5 {
                    for i in 1..n {
                        for j in i + 1..n {
                            let pieces = [
                                Piece { lo: 0, hi: i, m: M::Copy, d: D::None },
                                Piece { lo: i, hi: j, m: M::Anchored, d: D::None },
                                Piece { lo: j, hi: n, m: M::Borrow, d: D::None },
                            ];
                            t.dec(enc, &pieces, limits, false, &mut obs, None);
                        }
                    }
                }
                states.absorb(&obs, limits);
                let verdict = refcodec::decode(enc, lim.0, lim.1);
                rep.outcome(hash_of(&("acc", lim, verdict.as_ref().map(|v| v.len()))));
                if rep.want_sample() {
                    rep.sample(format!("limits {:?} decoder input [{}] -> {}", lim, hex(enc), match verdict {
                        Some(v) => format!("accept [{}]", hex(&v)),
                        None => "reject".to_string(),
                    }));
                }
            });
        }
    }
    for s in &states.seen {
        rep.state(*s);
    }
    rep.note(format!("decoder accept set (tiny limits): ALL byte strings over {:02X?} up to length {} x whole / every 2-way split x {{borrow, copy}} / every 3-way split (length <= 5); verdict and output equal the reference decoder", DEC_ALPHA, max_len));
}
