//! Driving the real HCOBS Encoder / Decoder (production limits through the
//! public API, tiny limits through hook H2) piece by piece, with a chosen input
//! method and drain operation per piece, and all per-step oracles
//! (C09 prefix + lag, C05 liveness) built in.
use hcobs::verif::LimitDecoder;
use hcobs::verif::LimitEncoder;
use hcobs::Decoder;
use hcobs::Encoder;
use mc_core::refcodec;
use mc_core::{oracle, Oracle};
use owning_iovec::AnchoredSlice;
use owning_iovec::ByteArena;
use owning_iovec::ConsumingIovec;
use owning_iovec::OwningIovec;
use std::io::Read;
use std::num::NonZeroUsize;

pub type Limits = Option<(usize, usize)>; // None = production limits through the public API

pub fn limits_of(l: Limits) -> (usize, usize) {
    l.unwrap_or((refcodec::PROD_FIRST, refcodec::PROD_LATER))
}

#[derive(Clone, Copy, Debug, PartialEq, Eq, Hash)]
pub enum M {
    Borrow,
    Copy,
    Anchored,
    /// encode_read / decode_read with a reader that delivers 1 byte, then an EINTR, then the rest
    Read,
    /// anchored, but the arena read (read_n) for this piece was issued EARLIER: right after the
    /// previous piece was fed and before its drain (before the first feed for piece 0), so an
    /// AnchoredSlice is held across a feed call and a drain, the way a pipelined reader does
    Prefetched,
}
pub const METHODS: [M; 4] = [M::Borrow, M::Copy, M::Anchored, M::Read];
pub const ALL_METHODS: [M; 5] = [M::Borrow, M::Copy, M::Anchored, M::Read, M::Prefetched];

#[derive(Clone, Copy, Debug, PartialEq, Eq, Hash)]
pub enum D {
    None,
    Consume1,
    ConsumeAll,
    Advance1,
    AdvanceAll,
    Read2,
    /// over-asking drains: one slice / one or two bytes more than is consumable, and a Read into a
    /// buffer larger than everything consumable (spans every stable slice in one call)
    ConsumePlus1,
    AdvancePlus1,
    AdvancePlus2,
    ReadAll,
    /// a Read into a 100-byte buffer: with slices of 65..256 bytes it takes whole slices and stops inside the next one
    Read100,
}
pub const DRAINS: [D; 6] = [D::None, D::Consume1, D::ConsumeAll, D::Advance1, D::AdvanceAll, D::Read2];
pub const OVER_DRAINS: [D; 4] = [D::ConsumePlus1, D::AdvancePlus1, D::AdvancePlus2, D::ReadAll];
pub const ALL_DRAINS: [D; 11] = [D::None, D::Consume1, D::ConsumeAll, D::Advance1, D::AdvanceAll, D::Read2, D::ConsumePlus1, D::AdvancePlus1, D::AdvancePlus2, D::ReadAll, D::Read100];

#[derive(Clone, Copy, Debug, PartialEq, Eq, Hash)]
pub struct Piece {
    pub lo: usize,
    pub hi: usize,
    pub m: M,
    pub d: D,
}

pub fn render_pieces(pieces: &[Piece]) -> String {
    pieces.iter().map(|p| format!("{}..{}:{:?}:{:?}", p.lo, p.hi, p.m, p.d)).collect::<Vec<_>>().join(" ")
}

pub fn parse_pieces(text: &str) -> Option<Vec<Piece>> {
    let mut out = Vec::new();
    for tok in text.split_whitespace() {
        let mut it = tok.split(':');
        let range = it.next()?;
        let (lo, hi) = range.split_once("..")?;
        let m = it.next()?;
        let d = it.next()?;
        out.push(Piece {
            lo: lo.parse().ok()?,
            hi: hi.parse().ok()?,
            m: ALL_METHODS.iter().copied().find(|x| format!("{:?}", x) == m)?,
            d: ALL_DRAINS.iter().copied().find(|x| format!("{:?}", x) == d)?,
        });
    }
    Some(out)
}

/// Delivers `data` as: 1 byte, Interrupted, then everything asked for.
pub struct ShortReader<'a> {
    data: &'a [u8],
    calls: usize,
}
impl<'a> ShortReader<'a> {
    pub fn new(data: &'a [u8]) -> Self {
        ShortReader { data, calls: 0 }
    }
}
impl Read for ShortReader<'_> {
    fn read(&mut self, dst: &mut [u8]) -> std::io::Result<usize> {
        self.calls += 1;
        if self.calls == 2 {
            return Err(std::io::Error::new(std::io::ErrorKind::Interrupted, "eintr"));
        }
        // 1 byte, EINTR, 1 byte, 2 bytes, then everything: a piece of >= 4 bytes takes at least three
        // non-empty short reads inside one read_n call
        let want = match self.calls {
            1 | 3 => 1,
            4 => 2,
            _ => usize::MAX,
        };
        let n = want.min(dst.len()).min(self.data.len());
        dst[..n].copy_from_slice(&self.data[..n]);
        self.data = &self.data[n..];
        Ok(n)
    }
}

pub struct FullReader<'a>(pub &'a [u8]);
impl Read for FullReader<'_> {
    fn read(&mut self, dst: &mut [u8]) -> std::io::Result<usize> {
        let n = dst.len().min(self.0.len());
        dst[..n].copy_from_slice(&self.0[..n]);
        self.0 = &self.0[n..];
        Ok(n)
    }
}

pub enum Enc<'a> {
    Prod(Encoder<'a>),
    Lim(LimitEncoder<'a>),
}

impl<'a> Enc<'a> {
    pub fn new(limits: Limits, prefilled: OwningIovec<'a>) -> Self {
        match limits {
            None => Enc::Prod(Encoder::new_from_iovec(prefilled)),
            Some((f, l)) => Enc::Lim(LimitEncoder::new_from_iovec(prefilled, f, l)),
        }
    }
    pub fn consumer(&mut self) -> ConsumingIovec<'_> {
        match self {
            Enc::Prod(e) => e.consumer(),
            Enc::Lim(e) => e.consumer(),
        }
    }
    /// read_n of `data` into the codec's arena without feeding it.
    pub fn read_ahead(&mut self, data: &[u8]) -> Result<AnchoredSlice, String> {
        let max = NonZeroUsize::MAX;
        let s = match self {
            Enc::Prod(e) => e.read_n(FullReader(data), data.len(), max),
            Enc::Lim(e) => e.read_n(FullReader(data), data.len(), max),
        }
        .map_err(|e| format!("read_n failed: {}", e))?;
        if s.slice() != data {
            return Err("read_n returned other bytes than delivered".into());
        }
        Ok(s)
    }
    /// Feeds a slice obtained earlier by `read_ahead`; its bytes must still be what was read.
    pub fn feed_slice(&mut self, s: AnchoredSlice, data: &[u8]) -> Result<(), String> {
        if s.slice() != data {
            return Err(format!("[live] an AnchoredSlice held since an earlier read_n no longer holds the bytes that were read: {:02X?} expected {:02X?}", &s.slice()[..s.slice().len().min(8)], &data[..data.len().min(8)]));
        }
        match self {
            Enc::Prod(e) => e.encode_anchored(s),
            Enc::Lim(e) => e.encode_anchored(s),
        }
        Ok(())
    }
    pub fn state_key(&self) -> (usize, usize, bool) {
        match self {
            Enc::Prod(e) => hcobs::verif::encoder_state_key(e),
            Enc::Lim(e) => e.state_key(),
        }
    }
    pub fn feed(&mut self, data: &'a [u8], m: M) -> Result<(), String> {
        let max = NonZeroUsize::MAX;
        // a Prefetched piece fed through this entry point (families that do not pipeline) is plain anchored
        let m = if m == M::Prefetched { M::Anchored } else { m };
        match (self, m) {
            (_, M::Prefetched) => unreachable!(),
            (Enc::Prod(e), M::Borrow) => e.encode(data),
            (Enc::Lim(e), M::Borrow) => e.encode(data),
            (Enc::Prod(e), M::Copy) => {
                let tmp = data.to_vec();
                e.encode_copy(&tmp);
            }
            (Enc::Lim(e), M::Copy) => {
                let tmp = data.to_vec();
                e.encode_copy(&tmp);
            }
            (Enc::Prod(e), M::Anchored) => {
                let s = e.read_n(FullReader(data), data.len(), max).map_err(|e| format!("read_n failed: {}", e))?;
                if s.slice() != data {
                    return Err("read_n returned other bytes than delivered".into());
                }
                e.encode_anchored(s);
            }
            (Enc::Lim(e), M::Anchored) => {
                let s = e.read_n(FullReader(data), data.len(), max).map_err(|e| format!("read_n failed: {}", e))?;
                if s.slice() != data {
                    return Err("read_n returned other bytes than delivered".into());
                }
                e.encode_anchored(s);
            }
            (Enc::Prod(e), M::Read) => {
                let n = e.encode_read(ShortReader::new(data), data.len(), max).map_err(|e| format!("encode_read failed: {}", e))?;
                if n != data.len() {
                    return Err(format!("encode_read returned {} for {} bytes", n, data.len()));
                }
            }
            (Enc::Lim(e), M::Read) => {
                let s: AnchoredSlice = e.read_n(ShortReader::new(data), data.len(), max).map_err(|e| format!("read_n failed: {}", e))?;
                if s.slice() != data {
                    return Err("read_n returned other bytes than delivered".into());
                }
                e.encode_anchored(s);
            }
        }
        Ok(())
    }
    pub fn finish(self) -> OwningIovec<'a> {
        match self {
            Enc::Prod(e) => e.finish(),
            Enc::Lim(e) => e.finish(),
        }
    }
}

pub enum Dec<'a> {
    Prod(Decoder<'a>),
    Lim(LimitDecoder<'a>),
}

impl<'a> Dec<'a> {
    pub fn new(limits: Limits, prefilled: OwningIovec<'a>) -> Self {
        match limits {
            None => Dec::Prod(Decoder::new_from_iovec(prefilled)),
            Some((f, l)) => Dec::Lim(LimitDecoder::new_from_iovec(prefilled, f, l)),
        }
    }
    pub fn consumer(&mut self) -> ConsumingIovec<'_> {
        match self {
            Dec::Prod(e) => e.consumer(),
            Dec::Lim(e) => e.consumer(),
        }
    }
    pub fn read_ahead(&mut self, data: &[u8]) -> Result<AnchoredSlice, String> {
        let max = NonZeroUsize::MAX;
        let s = match self {
            Dec::Prod(e) => e.read_n(FullReader(data), data.len(), max),
            Dec::Lim(e) => e.read_n(FullReader(data), data.len(), max),
        }
        .map_err(|e| format!("read_n failed: {}", e))?;
        if s.slice() != data {
            return Err("read_n returned other bytes than delivered".into());
        }
        Ok(s)
    }
    pub fn feed_slice(&mut self, s: AnchoredSlice, data: &[u8]) -> Result<bool, String> {
        if s.slice() != data {
            return Err(format!("[live] an AnchoredSlice held since an earlier read_n no longer holds the bytes that were read: {:02X?} expected {:02X?}", &s.slice()[..s.slice().len().min(8)], &data[..data.len().min(8)]));
        }
        Ok(match self {
            Dec::Prod(e) => e.decode_anchored(s).is_ok(),
            Dec::Lim(e) => e.decode_anchored(s).is_ok(),
        })
    }
    pub fn state_key(&self) -> String {
        match self {
            Dec::Prod(e) => hcobs::verif::decoder_state_key(e),
            Dec::Lim(e) => e.state_key(),
        }
    }
    /// Ok(true) = accepted so far, Ok(false) = decode error (rejected)
    pub fn feed(&mut self, data: &'a [u8], m: M) -> Result<bool, String> {
        let max = NonZeroUsize::MAX;
        let m = if m == M::Prefetched { M::Anchored } else { m };
        let r = match (self, m) {
            (_, M::Prefetched) => unreachable!(),
            (Dec::Prod(e), M::Borrow) => e.decode(data).is_ok(),
            (Dec::Lim(e), M::Borrow) => e.decode(data).is_ok(),
            (Dec::Prod(e), M::Copy) => {
                let tmp = data.to_vec();
                e.decode_copy(&tmp).is_ok()
            }
            (Dec::Lim(e), M::Copy) => {
                let tmp = data.to_vec();
                e.decode_copy(&tmp).is_ok()
            }
            (Dec::Prod(e), M::Anchored) => {
                let s = e.read_n(FullReader(data), data.len(), max).map_err(|e| format!("read_n failed: {}", e))?;
                e.decode_anchored(s).is_ok()
            }
            (Dec::Lim(e), M::Anchored) => {
                let s = e.read_n(FullReader(data), data.len(), max).map_err(|e| format!("read_n failed: {}", e))?;
                e.decode_anchored(s).is_ok()
            }
            (Dec::Prod(e), M::Read) => match e.decode_read(ShortReader::new(data), data.len(), max) {
                Ok(n) if n == data.len() => true,
                Ok(n) => return Err(format!("decode_read returned {} for {} bytes", n, data.len())),
                Err(err) if err.kind() == std::io::ErrorKind::Other => false,
                Err(err) => return Err(format!("decode_read failed with {:?}", err.kind())),
            },
            (Dec::Lim(e), M::Read) => {
                let s = e.read_n(ShortReader::new(data), data.len(), max).map_err(|e| format!("read_n failed: {}", e))?;
                e.decode_anchored(s).is_ok()
            }
        };
        Ok(r)
    }
    pub fn finish(self) -> Option<OwningIovec<'a>> {
        match self {
            Dec::Prod(e) => e.finish().ok(),
            Dec::Lim(e) => e.finish().ok(),
        }
    }
}

/// What a run observed, for coverage accounting.
#[derive(Default)]
pub struct Obs {
    pub enc_states: Vec<(usize, usize, bool)>,
    pub dec_states: Vec<String>,
    pub max_lag: usize,
    pub drained_early: usize,
}

/// A tagged check fails the execution only when its oracle class is selected for the running
/// property; otherwise the execution goes on, so that a sibling property's oracle never hides a
/// later failure of the selected one.
fn fail(o: Oracle, msg: String) -> Result<(), String> {
    if oracle(o) {
        Err(msg)
    } else {
        Ok(())
    }
}

fn slice_ok(ptr: usize, len: usize, buffers: &[(usize, usize)]) -> bool {
    len == 0 || owning_iovec::verif::is_live(ptr, len) || buffers.iter().any(|(lo, hi)| *lo <= ptr && ptr + len <= *hi)
}

/// Looks at the consumer side after a feed call: liveness of every exposed slice,
/// the stable bytes (returned), the lag.
fn observe(consumer: &ConsumingIovec<'_>, buffers: &[(usize, usize)], who: &str) -> Result<(Vec<u8>, usize), String> {
    let mut stable = Vec::new();
    for (i, s) in consumer.stable_prefix().iter().enumerate() {
        if s.is_empty() {
            fail(Oracle::Content, format!("[content] {}: exposed slice #{} is empty", who, i))?;
        }
        if !slice_ok(s.as_ptr() as usize, s.len(), buffers) {
            fail(Oracle::Liveness, format!("[live] {}: exposed slice #{} ({} bytes) is neither in a live arena chunk nor in a caller buffer", who, i, s.len()))?;
        }
        stable.extend_from_slice(s);
    }
    let total = consumer.total_size();
    if stable.len() > total {
        fail(Oracle::PrefixLag, format!("[prefix] {}: {} stable bytes but total_size() = {}", who, stable.len(), total))?;
    }
    Ok((stable, total))
}

/// Applies one drain op; returns the number of bytes it removed from the front of the pipe.
/// What the op *returns* is judged under the [prefix] class; bytes that disappear without having
/// been consumable (a drain that removes more than it was shown) are lost output, which every
/// property about the produced bytes is entitled to report.
fn drain(consumer: &mut ConsumingIovec<'_>, d: D, stable: &[u8], who: &str) -> Result<usize, String> {
    let lens: Vec<usize> = consumer.stable_prefix().iter().map(|s| s.len()).collect();
    let total_before = consumer.total_size();
    match d {
        D::None => {}
        D::Consume1 | D::ConsumeAll | D::ConsumePlus1 => {
            let k = match d {
                D::Consume1 => 1,
                D::ConsumeAll => usize::MAX,
                _ => lens.len() + 1,
            };
            let got = consumer.consume(k);
            if got != k.min(lens.len()) {
                fail(Oracle::PrefixLag, format!("[prefix] {}: consume({}) returned {} with {} stable slices", who, if k == usize::MAX { "MAX".to_string() } else { k.to_string() }, got, lens.len()))?;
            }
        }
        D::Advance1 | D::AdvanceAll | D::AdvancePlus1 | D::AdvancePlus2 => {
            let k = match d {
                D::Advance1 => 1,
                D::AdvanceAll => usize::MAX,
                D::AdvancePlus1 => stable.len() + 1,
                _ => stable.len() + 2,
            };
            let got = consumer.advance_slices(k);
            if got != k.min(stable.len()) {
                fail(Oracle::PrefixLag, format!("[prefix] {}: advance_slices(stable{}) returned {} with {} stable bytes", who, match d { D::Advance1 => " min 1", D::AdvanceAll => " MAX", D::AdvancePlus1 => " + 1", _ => " + 2" }, got, stable.len()))?;
            }
        }
        D::Read2 | D::ReadAll | D::Read100 => {
            let mut buf = vec![0u8; match d {
                D::Read2 => 2,
                D::Read100 => 100,
                _ => stable.len() + 64,
            }];
            let got = consumer.read(&mut buf).map_err(|e| format!("{}: read failed: {}", who, e))?;
            if got > stable.len() || buf[..got] != stable[..got] {
                // Read may legitimately return fewer bytes than asked; what it returns must be the front of the pipe
                return Err(format!("[prefix] [shape] [roundtrip] {}: read returned {} bytes {:02X?} although the consumable bytes start {:02X?}", who, got, &buf[..got.min(8)], &stable[..stable.len().min(8)]));
            }
            if got == 0 && !stable.is_empty() {
                fail(Oracle::PrefixLag, format!("[prefix] {}: read returned nothing with {} consumable bytes", who, stable.len()))?;
            }
        }
    }
    let removed = total_before - consumer.total_size().min(total_before);
    if removed > stable.len() {
        return Err(format!("[prefix] [shape] [roundtrip] {}: drain {:?} removed {} bytes although only {} were consumable: output that was never shown to the consumer is lost", who, d, removed, stable.len()));
    }
    // what is left must be the rest of what was visible
    let mut rest = Vec::new();
    for s in consumer.stable_prefix() {
        rest.extend_from_slice(s);
    }
    if rest.len() < stable.len() - removed || rest[..stable.len() - removed] != stable[removed..] {
        return Err(format!("[prefix] [shape] [roundtrip] {}: after {:?} ({} bytes removed) the consumable bytes are not the previous ones minus what was removed: output lost or reordered", who, d, removed));
    }
    Ok(removed)
}

fn buffer_range(b: &[u8]) -> (usize, usize) {
    let r = b.as_ptr_range();
    (r.start as usize, r.end as usize)
}

/// Encodes `input` piece by piece on the real encoder.  Returns the complete
/// output (drained early ++ finish().flatten()).  Err = violation description.
pub fn run_encode(input: &[u8], pieces: &[Piece], limits: Limits, prefill: &[u8], obs: &mut Obs) -> Result<Vec<u8>, String> {
    let live0 = (ByteArena::num_live_chunks(), ByteArena::num_live_bytes());
    owning_iovec::verif::reset_stats();
    let (_, later) = limits_of(limits);
    let buffers = [buffer_range(input), buffer_range(prefill)];
    let mut pre = OwningIovec::new();
    if !prefill.is_empty() {
        pre.push(prefill);
    }
    let mut enc = Enc::new(limits, pre);
    let mut drained: Vec<u8> = Vec::new();
    let mut snaps: Vec<(usize, Vec<u8>)> = Vec::new();
    obs.enc_states.push(enc.state_key());
    let mut ahead: Option<AnchoredSlice> = None;
    if let Some(p0) = pieces.first() {
        if p0.m == M::Prefetched {
            ahead = Some(enc.read_ahead(&input[p0.lo..p0.hi])?);
        }
    }
    for (pi, p) in pieces.iter().enumerate() {
        if p.m == M::Prefetched {
            let s = ahead.take().ok_or_else(|| "harness: no prefetched slice".to_string())?;
            enc.feed_slice(s, &input[p.lo..p.hi])?;
        } else {
            enc.feed(&input[p.lo..p.hi], p.m)?;
        }
        if let Some(nx) = pieces.get(pi + 1) {
            if nx.m == M::Prefetched {
                ahead = Some(enc.read_ahead(&input[nx.lo..nx.hi])?);
            }
        }
        obs.enc_states.push(enc.state_key());
        let mut consumer = enc.consumer();
        let (stable, total) = observe(&consumer, &buffers, "encoder")?;
        let lag = total - stable.len();
        obs.max_lag = obs.max_lag.max(lag);
        let bound = owning_iovec::verif::max_chunk_size_seen() + later + 2;
        if lag > bound {
            fail(Oracle::PrefixLag, format!("[prefix] encoder lag: {} bytes produced but not consumable, bound is one arena chunk ({}) + one HCOBS chunk ({}) + header (2)", lag, owning_iovec::verif::max_chunk_size_seen(), later))?;
        }
        let removed = drain(&mut consumer, p.d, &stable, "encoder")?;
        snaps.push((drained.len(), stable));
        drained.extend_from_slice(&snaps.last().unwrap().1[..removed]);
    }
    obs.drained_early += drained.len();
    let out = enc.finish();
    let rest = match out.flatten() {
        Ok(r) => r,
        Err(_) => return Err("finish() left a placeholder pending".into()),
    };
    for (i, s) in out.stable_prefix().iter().enumerate() {
        if !slice_ok(s.as_ptr() as usize, s.len(), &buffers) {
            fail(Oracle::Liveness, format!("[live] encoder: final slice #{} is neither in a live arena chunk nor in a caller buffer", i))?;
        }
    }
    let mut output = drained;
    output.extend_from_slice(&rest);
    for (at, stable) in &snaps {
        if output.len() < at + stable.len() || output[*at..at + stable.len()] != stable[..] {
            fail(Oracle::PrefixLag, format!("[prefix] encoder: bytes consumable after a call (offset {}, {} bytes) are not a prefix of the final output", at, stable.len()))?;
        }
    }
    drop(out);
    let live1 = (ByteArena::num_live_chunks(), ByteArena::num_live_bytes());
    if live1 != live0 {
        fail(Oracle::Leak, format!("[leak] arena leak after dropping the encoder output: live (chunks, bytes) {:?} -> {:?}", live0, live1))?;
    }
    if output.len() < prefill.len() || output[..prefill.len()] != *prefill {
        return Err("output does not start with the pre-filled iovec contents".into());
    }
    Ok(output[prefill.len()..].to_vec())
}

/// Decodes `encoded` piece by piece on the real decoder.
/// Ok(Some(bytes)) accepted, Ok(None) rejected, Err = violation.
pub fn run_decode(encoded: &[u8], pieces: &[Piece], limits: Limits, prefill: &[u8], obs: &mut Obs) -> Result<Option<Vec<u8>>, String> {
    let live0 = (ByteArena::num_live_chunks(), ByteArena::num_live_bytes());
    let verdict = run_decode_inner(encoded, pieces, limits, prefill, obs)?;
    let live1 = (ByteArena::num_live_chunks(), ByteArena::num_live_bytes());
    if live1 != live0 {
        fail(Oracle::Leak, format!("[leak] arena leak after dropping the decoder: live (chunks, bytes) {:?} -> {:?}", live0, live1))?;
    }
    Ok(verdict)
}

fn run_decode_inner(encoded: &[u8], pieces: &[Piece], limits: Limits, prefill: &[u8], obs: &mut Obs) -> Result<Option<Vec<u8>>, String> {
    let buffers = [buffer_range(encoded), buffer_range(prefill)];
    let mut pre = OwningIovec::new();
    if !prefill.is_empty() {
        pre.push(prefill);
    }
    let mut dec = Dec::new(limits, pre);
    let mut drained: Vec<u8> = Vec::new();
    let mut snaps: Vec<(usize, Vec<u8>)> = Vec::new();
    let mut verdict: Option<Option<Vec<u8>>> = None;
    obs.dec_states.push(dec.state_key());
    let mut ahead: Option<AnchoredSlice> = None;
    if let Some(p0) = pieces.first() {
        if p0.m == M::Prefetched {
            ahead = Some(dec.read_ahead(&encoded[p0.lo..p0.hi])?);
        }
    }
    for (pi, p) in pieces.iter().enumerate() {
        let ok = if p.m == M::Prefetched {
            let s = ahead.take().ok_or_else(|| "harness: no prefetched slice".to_string())?;
            dec.feed_slice(s, &encoded[p.lo..p.hi])?
        } else {
            dec.feed(&encoded[p.lo..p.hi], p.m)?
        };
        if ok {
            if let Some(nx) = pieces.get(pi + 1) {
                if nx.m == M::Prefetched {
                    ahead = Some(dec.read_ahead(&encoded[nx.lo..nx.hi])?);
                }
            }
        }
        // Even after a decode error whatever the consumer exposes must be alive.
        let mut consumer = dec.consumer();
        let (stable, total) = observe(&consumer, &buffers, "decoder")?;
        if !ok {
            // arena may let go of its chunk: the exposed slices must survive that too
            consumer.arena().flush_cache();
            observe(&consumer, &buffers, "decoder (after a decode error and an arena flush)")?;
            verdict = Some(None);
            break;
        }
        obs.dec_states.push(dec.state_key());
        let mut consumer = dec.consumer();
        if stable.len() != total || consumer.has_pending_backrefs() {
            fail(Oracle::PrefixLag, format!("[prefix] decoder lag: {} of {} produced bytes are consumable (must be all)", stable.len(), total))?;
        }
        let removed = drain(&mut consumer, p.d, &stable, "decoder")?;
        snaps.push((drained.len(), stable));
        drained.extend_from_slice(&snaps.last().unwrap().1[..removed]);
    }
    let verdict = match verdict {
        Some(v) => v,
        None => match dec.finish() {
            None => None,
            Some(out) => {
                let rest = out.flatten().map_err(|_| "decoder output has a pending placeholder".to_string())?;
                for (i, s) in out.stable_prefix().iter().enumerate() {
                    if !slice_ok(s.as_ptr() as usize, s.len(), &buffers) {
                        fail(Oracle::Liveness, format!("[live] decoder: final slice #{} is neither in a live arena chunk nor in a caller buffer", i))?;
                    }
                }
                let mut output = drained;
                output.extend_from_slice(&rest);
                for (at, stable) in &snaps {
                    if output.len() < at + stable.len() || output[*at..at + stable.len()] != stable[..] {
                        fail(Oracle::PrefixLag, "[prefix] decoder: bytes consumable after a call are not a prefix of the final output".into())?;
                    }
                }
                if output.len() < prefill.len() || output[..prefill.len()] != *prefill {
                    return Err("decoder output does not start with the pre-filled iovec contents".into());
                }
                Some(output[prefill.len()..].to_vec())
            }
        },
    };
    Ok(verdict)
}

/// All oracles on one encoder output (C02 + C07 encoder half).
pub fn judge_encoding(input: &[u8], output: &[u8], limits: Limits) -> Result<(), String> {
    let (first, later) = limits_of(limits);
    let mut failures: Vec<String> = Vec::new();
    if refcodec::contains_stuff(output) {
        failures.push(format!("[shape] output contains the stuff sequence FE FD at offset {}", refcodec::find_stuff(output).unwrap()));
    }
    let canon = refcodec::encode(input, first, later);
    if output != canon.as_slice() {
        let at = output.iter().zip(canon.iter()).position(|(a, b)| a != b).unwrap_or(output.len().min(canon.len()));
        failures.push(format!(
            "[canon] output differs from the canonical encoding at offset {} (lengths {} vs {}): got [{}] expected [{}]",
            at,
            output.len(),
            canon.len(),
            mc_core::hex(&output[at.saturating_sub(4).min(output.len())..output.len().min(at + 8)]),
            mc_core::hex(&canon[at.saturating_sub(4).min(canon.len())..canon.len().min(at + 8)])
        ));
    }
    if limits.is_none() {
        let bound = input.len() + 1 + 2 * input.len().div_ceil(64008);
        if output.len() > bound {
            failures.push(format!("[shape] output length {} exceeds len + 1 + 2*ceil(len/64008) = {}", output.len(), bound));
        }
    }
    // the first failure whose class is switched on for this check; else the first one at all
    // (the caller filters irrelevant ones out)
    match failures.iter().find(|f| mc_core::relevant(f)) {
        Some(f) => Err(f.clone()),
        None => match failures.into_iter().next() {
            Some(f) => Err(f),
            None => Ok(()),
        },
    }
}
