//! Driving the real HCOBS Encoder / Decoder (production limits through the
//! public API, tiny limits through hook H2) piece by piece, with a chosen input
//! method and drain operation per piece, and all per-step oracles
//! (C09 prefix + lag, C05 liveness) built in.
use hcobs::verif::LimitDecoder;
use hcobs::verif::LimitEncoder;
use hcobs::Decoder;
use hcobs::Encoder;
use mc_core::refcodec;
use owning_iovec::AnchoredSlice;
use owning_iovec::ByteArena;
use owning_iovec::ConsumingIovec;
use owning_iovec::OwningIovec;
use std::io::Read;
use std::num::NonZeroUsize;

pub type Limits = Option<(usize, usize)>; // None = production limits through the public API

pub fn limits_of(l: Limits) -> (usize, usize) {
    l.unwrap_or((refcodec::PROD_FIRST, refcodec::PROD_LATER))
}

#[derive(Clone, Copy, Debug, PartialEq, Eq, Hash)]
pub enum M {
    Borrow,
    Copy,
    Anchored,
    /// encode_read / decode_read with a reader that delivers 1 byte, then an EINTR, then the rest
    Read,
}
pub const METHODS: [M; 4] = [M::Borrow, M::Copy, M::Anchored, M::Read];

#[derive(Clone, Copy, Debug, PartialEq, Eq, Hash)]
pub enum D {
    None,
    Consume1,
    ConsumeAll,
    Advance1,
    AdvanceAll,
    Read2,
}
pub const DRAINS: [D; 6] = [D::None, D::Consume1, D::ConsumeAll, D::Advance1, D::AdvanceAll, D::Read2];

#[derive(Clone, Copy, Debug, PartialEq, Eq, Hash)]
pub struct Piece {
    pub lo: usize,
    pub hi: usize,
    pub m: M,
    pub d: D,
}

pub fn render_pieces(pieces: &[Piece]) -> String {
    pieces.iter().map(|p| format!("{}..{}:{:?}:{:?}", p.lo, p.hi, p.m, p.d)).collect::<Vec<_>>().join(" ")
}

pub fn parse_pieces(text: &str) -> Option<Vec<Piece>> {
    let mut out = Vec::new();
    for tok in text.split_whitespace() {
        let mut it = tok.split(':');
        let range = it.next()?;
        let (lo, hi) = range.split_once("..")?;
        let m = it.next()?;
        let d = it.next()?;
        out.push(Piece {
            lo: lo.parse().ok()?,
            hi: hi.parse().ok()?,
            m: METHODS.iter().copied().find(|x| format!("{:?}", x) == m)?,
            d: DRAINS.iter().copied().find(|x| format!("{:?}", x) == d)?,
        });
    }
    Some(out)
}

/// Delivers `data` as: 1 byte, Interrupted, then everything asked for.
pub struct ShortReader<'a> {
    data: &'a [u8],
    calls: usize,
}
impl<'a> ShortReader<'a> {
    pub fn new(data: &'a [u8]) -> Self {
        ShortReader { data, calls: 0 }
    }
}
impl Read for ShortReader<'_> {
    fn read(&mut self, dst: &mut [u8]) -> std::io::Result<usize> {
        self.calls += 1;
        if self.calls == 2 {
            return Err(std::io::Error::new(std::io::ErrorKind::Interrupted, "eintr"));
        }
        // 1 byte, EINTR, 1 byte, 2 bytes, then everything: a piece of >= 4 bytes takes at least three
        // non-empty short reads inside one read_n call
        let want = match self.calls {
            1 | 3 => 1,
            4 => 2,
            _ => usize::MAX,
        };
        let n = want.min(dst.len()).min(self.data.len());
        dst[..n].copy_from_slice(&self.data[..n]);
        self.data = &self.data[n..];
        Ok(n)
    }
}

pub struct FullReader<'a>(pub &'a [u8]);
impl Read for FullReader<'_> {
    fn read(&mut self, dst: &mut [u8]) -> std::io::Result<usize> {
        let n = dst.len().min(self.0.len());
        dst[..n].copy_from_slice(&self.0[..n]);
        self.0 = &self.0[n..];
        Ok(n)
    }
}

pub enum Enc<'a> {
    Prod(Encoder<'a>),
    Lim(LimitEncoder<'a>),
}

impl<'a> Enc<'a> {
    pub fn new(limits: Limits, prefilled: OwningIovec<'a>) -> Self {
        match limits {
            None => Enc::Prod(Encoder::new_from_iovec(prefilled)),
            Some((f, l)) => Enc::Lim(LimitEncoder::new_from_iovec(prefilled, f, l)),
        }
    }
    pub fn consumer(&mut self) -> ConsumingIovec<'_> {
        match self {
            Enc::Prod(e) => e.consumer(),
            Enc::Lim(e) => e.consumer(),
        }
    }
    pub fn state_key(&self) -> (usize, usize, bool) {
        match self {
            Enc::Prod(e) => hcobs::verif::encoder_state_key(e),
            Enc::Lim(e) => e.state_key(),
        }
    }
    pub fn feed(&mut self, data: &'a [u8], m: M) -> Result<(), String> {
        let max = NonZeroUsize::MAX;
        match (self, m) {
            (Enc::Prod(e), M::Borrow) => e.encode(data),
            (Enc::Lim(e), M::Borrow) => e.encode(data),
            (Enc::Prod(e), M::Copy) => {
                let tmp = data.to_vec();
                e.encode_copy(&tmp);
            }
            (Enc::Lim(e), M::Copy) => {
                let tmp = data.to_vec();
                e.encode_copy(&tmp);
            }
            (Enc::Prod(e), M::Anchored) => {
                let s = e.read_n(FullReader(data), data.len(), max).map_err(|e| format!("read_n failed: {}", e))?;
                if s.slice() != data {
                    return Err("read_n returned other bytes than delivered".into());
                }
                e.encode_anchored(s);
            }
            (Enc::Lim(e), M::Anchored) => {
                let s = e.read_n(FullReader(data), data.len(), max).map_err(|e| format!("read_n failed: {}", e))?;
                if s.slice() != data {
                    return Err("read_n returned other bytes than delivered".into());
                }
                e.encode_anchored(s);
            }
            (Enc::Prod(e), M::Read) => {
                let n = e.encode_read(ShortReader::new(data), data.len(), max).map_err(|e| format!("encode_read failed: {}", e))?;
                if n != data.len() {
                    return Err(format!("encode_read returned {} for {} bytes", n, data.len()));
                }
            }
            (Enc::Lim(e), M::Read) => {
                let s: AnchoredSlice = e.read_n(ShortReader::new(data), data.len(), max).map_err(|e| format!("read_n failed: {}", e))?;
                if s.slice() != data {
                    return Err("read_n returned other bytes than delivered".into());
                }
                e.encode_anchored(s);
            }
        }
        Ok(())
    }
    pub fn finish(self) -> OwningIovec<'a> {
        match self {
            Enc::Prod(e) => e.finish(),
            Enc::Lim(e) => e.finish(),
        }
    }
}

pub enum Dec<'a> {
    Prod(Decoder<'a>),
    Lim(LimitDecoder<'a>),
}

impl<'a> Dec<'a> {
    pub fn new(limits: Limits, prefilled: OwningIovec<'a>) -> Self {
        match limits {
            None => Dec::Prod(Decoder::new_from_iovec(prefilled)),
            Some((f, l)) => Dec::Lim(LimitDecoder::new_from_iovec(prefilled, f, l)),
        }
    }
    pub fn consumer(&mut self) -> ConsumingIovec<'_> {
        match self {
            Dec::Prod(e) => e.consumer(),
            Dec::Lim(e) => e.consumer(),
        }
    }
    pub fn state_key(&self) -> String {
        match self {
            Dec::Prod(e) => hcobs::verif::decoder_state_key(e),
            Dec::Lim(e) => e.state_key(),
        }
    }
    /// Ok(true) = accepted so far, Ok(false) = decode error (rejected)
    pub fn feed(&mut self, data: &'a [u8], m: M) -> Result<bool, String> {
        let max = NonZeroUsize::MAX;
        let r = match (self, m) {
            (Dec::Prod(e), M::Borrow) => e.decode(data).is_ok(),
            (Dec::Lim(e), M::Borrow) => e.decode(data).is_ok(),
            (Dec::Prod(e), M::Copy) => {
                let tmp = data.to_vec();
                e.decode_copy(&tmp).is_ok()
            }
            (Dec::Lim(e), M::Copy) => {
                let tmp = data.to_vec();
                e.decode_copy(&tmp).is_ok()
            }
            (Dec::Prod(e), M::Anchored) => {
                let s = e.read_n(FullReader(data), data.len(), max).map_err(|e| format!("read_n failed: {}", e))?;
                e.decode_anchored(s).is_ok()
            }
            (Dec::Lim(e), M::Anchored) => {
                let s = e.read_n(FullReader(data), data.len(), max).map_err(|e| format!("read_n failed: {}", e))?;
                e.decode_anchored(s).is_ok()
            }
            (Dec::Prod(e), M::Read) => match e.decode_read(ShortReader::new(data), data.len(), max) {
                Ok(n) if n == data.len() => true,
                Ok(n) => return Err(format!("decode_read returned {} for {} bytes", n, data.len())),
                Err(err) if err.kind() == std::io::ErrorKind::Other => false,
                Err(err) => return Err(format!("decode_read failed with {:?}", err.kind())),
            },
            (Dec::Lim(e), M::Read) => {
                let s = e.read_n(ShortReader::new(data), data.len(), max).map_err(|e| format!("read_n failed: {}", e))?;
                e.decode_anchored(s).is_ok()
            }
        };
        Ok(r)
    }
    pub fn finish(self) -> Option<OwningIovec<'a>> {
        match self {
            Dec::Prod(e) => e.finish().ok(),
            Dec::Lim(e) => e.finish().ok(),
        }
    }
}

/// What a run observed, for coverage accounting.
#[derive(Default)]
pub struct Obs {
    pub enc_states: Vec<(usize, usize, bool)>,
    pub dec_states: Vec<String>,
    pub max_lag: usize,
    pub drained_early: usize,
}

fn slice_ok(ptr: usize, len: usize, buffers: &[(usize, usize)]) -> bool {
    len == 0 || owning_iovec::verif::is_live(ptr, len) || buffers.iter().any(|(lo, hi)| *lo <= ptr && ptr + len <= *hi)
}

/// Looks at the consumer side after a feed call: liveness of every exposed slice,
/// the stable bytes (returned), the lag.
fn observe(consumer: &ConsumingIovec<'_>, buffers: &[(usize, usize)], who: &str) -> Result<(Vec<u8>, usize), String> {
    let mut stable = Vec::new();
    for (i, s) in consumer.stable_prefix().iter().enumerate() {
        if s.is_empty() {
            return Err(format!("[content] {}: exposed slice #{} is empty", who, i));
        }
        if !slice_ok(s.as_ptr() as usize, s.len(), buffers) {
            return Err(format!("[live] {}: exposed slice #{} ({} bytes) is neither in a live arena chunk nor in a caller buffer", who, i, s.len()));
        }
        stable.extend_from_slice(s);
    }
    let total = consumer.total_size();
    if stable.len() > total {
        return Err(format!("[prefix] {}: {} stable bytes but total_size() = {}", who, stable.len(), total));
    }
    Ok((stable, total))
}

/// Applies one drain op; returns the bytes removed (verified against `stable`).
fn drain(consumer: &mut ConsumingIovec<'_>, d: D, stable: &[u8], who: &str) -> Result<usize, String> {
    let lens: Vec<usize> = consumer.stable_prefix().iter().map(|s| s.len()).collect();
    let removed = match d {
        D::None => 0,
        D::Consume1 | D::ConsumeAll => {
            let k = if d == D::Consume1 { 1 } else { usize::MAX };
            let got = consumer.consume(k);
            if got != k.min(lens.len()) {
                return Err(format!("[prefix] {}: consume returned {} with {} stable slices", who, got, lens.len()));
            }
            lens[..got].iter().sum()
        }
        D::Advance1 | D::AdvanceAll => {
            let k = if d == D::Advance1 { 1 } else { usize::MAX };
            let got = consumer.advance_slices(k);
            if got != k.min(stable.len()) {
                return Err(format!("[prefix] {}: advance_slices returned {} with {} stable bytes", who, got, stable.len()));
            }
            got
        }
        D::Read2 => {
            let mut buf = [0u8; 2];
            let got = consumer.read(&mut buf).map_err(|e| format!("{}: read failed: {}", who, e))?;
            if got != 2.min(stable.len()) || buf[..got] != stable[..got] {
                return Err(format!("[prefix] {}: read returned {} bytes {:02X?} with stable prefix starting {:02X?}", who, got, &buf[..got], &stable[..stable.len().min(2)]));
            }
            got
        }
    };
    // what is left must be the rest of what was visible
    let mut rest = Vec::new();
    for s in consumer.stable_prefix() {
        rest.extend_from_slice(s);
    }
    if rest != stable[removed..] {
        return Err(format!("[prefix] {}: after {:?} the stable bytes are not the previous ones minus the {} removed", who, d, removed));
    }
    Ok(removed)
}

fn buffer_range(b: &[u8]) -> (usize, usize) {
    let r = b.as_ptr_range();
    (r.start as usize, r.end as usize)
}

/// Encodes `input` piece by piece on the real encoder.  Returns the complete
/// output (drained early ++ finish().flatten()).  Err = violation description.
pub fn run_encode(input: &[u8], pieces: &[Piece], limits: Limits, prefill: &[u8], obs: &mut Obs) -> Result<Vec<u8>, String> {
    let live0 = (ByteArena::num_live_chunks(), ByteArena::num_live_bytes());
    owning_iovec::verif::reset_stats();
    let (_, later) = limits_of(limits);
    let buffers = [buffer_range(input), buffer_range(prefill)];
    let mut pre = OwningIovec::new();
    if !prefill.is_empty() {
        pre.push(prefill);
    }
    let mut enc = Enc::new(limits, pre);
    let mut drained: Vec<u8> = Vec::new();
    let mut snaps: Vec<(usize, Vec<u8>)> = Vec::new();
    obs.enc_states.push(enc.state_key());
    for p in pieces {
        enc.feed(&input[p.lo..p.hi], p.m)?;
        obs.enc_states.push(enc.state_key());
        let mut consumer = enc.consumer();
        let (stable, total) = observe(&consumer, &buffers, "encoder")?;
        let lag = total - stable.len();
        obs.max_lag = obs.max_lag.max(lag);
        let bound = owning_iovec::verif::max_chunk_size_seen() + later + 2;
        if lag > bound {
            return Err(format!("[prefix] encoder lag: {} bytes produced but not consumable, bound is one arena chunk ({}) + one HCOBS chunk ({}) + header (2)", lag, owning_iovec::verif::max_chunk_size_seen(), later));
        }
        let removed = drain(&mut consumer, p.d, &stable, "encoder")?;
        snaps.push((drained.len(), stable));
        drained.extend_from_slice(&snaps.last().unwrap().1[..removed]);
    }
    obs.drained_early += drained.len();
    let out = enc.finish();
    let rest = match out.flatten() {
        Ok(r) => r,
        Err(_) => return Err("finish() left a placeholder pending".into()),
    };
    for (i, s) in out.stable_prefix().iter().enumerate() {
        if !slice_ok(s.as_ptr() as usize, s.len(), &buffers) {
            return Err(format!("[live] encoder: final slice #{} is neither in a live arena chunk nor in a caller buffer", i));
        }
    }
    let mut output = drained;
    output.extend_from_slice(&rest);
    for (at, stable) in &snaps {
        if output.len() < at + stable.len() || output[*at..at + stable.len()] != stable[..] {
            return Err(format!("[prefix] encoder: bytes consumable after a call (offset {}, {} bytes) are not a prefix of the final output", at, stable.len()));
        }
    }
    drop(out);
    let live1 = (ByteArena::num_live_chunks(), ByteArena::num_live_bytes());
    if live1 != live0 {
        return Err(format!("[leak] arena leak after dropping the encoder output: live (chunks, bytes) {:?} -> {:?}", live0, live1));
    }
    if output.len() < prefill.len() || output[..prefill.len()] != *prefill {
        return Err("output does not start with the pre-filled iovec contents".into());
    }
    Ok(output[prefill.len()..].to_vec())
}

/// Decodes `encoded` piece by piece on the real decoder.
/// Ok(Some(bytes)) accepted, Ok(None) rejected, Err = violation.
pub fn run_decode(encoded: &[u8], pieces: &[Piece], limits: Limits, prefill: &[u8], obs: &mut Obs) -> Result<Option<Vec<u8>>, String> {
    let live0 = (ByteArena::num_live_chunks(), ByteArena::num_live_bytes());
    let verdict = run_decode_inner(encoded, pieces, limits, prefill, obs)?;
    let live1 = (ByteArena::num_live_chunks(), ByteArena::num_live_bytes());
    if live1 != live0 {
        return Err(format!("[leak] arena leak after dropping the decoder: live (chunks, bytes) {:?} -> {:?}", live0, live1));
    }
    Ok(verdict)
}

fn run_decode_inner(encoded: &[u8], pieces: &[Piece], limits: Limits, prefill: &[u8], obs: &mut Obs) -> Result<Option<Vec<u8>>, String> {
    let buffers = [buffer_range(encoded), buffer_range(prefill)];
    let mut pre = OwningIovec::new();
    if !prefill.is_empty() {
        pre.push(prefill);
    }
    let mut dec = Dec::new(limits, pre);
    let mut drained: Vec<u8> = Vec::new();
    let mut snaps: Vec<(usize, Vec<u8>)> = Vec::new();
    let mut verdict: Option<Option<Vec<u8>>> = None;
    obs.dec_states.push(dec.state_key());
    for p in pieces {
        let ok = dec.feed(&encoded[p.lo..p.hi], p.m)?;
        // Even after a decode error whatever the consumer exposes must be alive.
        let mut consumer = dec.consumer();
        let (stable, total) = observe(&consumer, &buffers, "decoder")?;
        if !ok {
            // arena may let go of its chunk: the exposed slices must survive that too
            consumer.arena().flush_cache();
            observe(&consumer, &buffers, "decoder (after a decode error and an arena flush)")?;
            verdict = Some(None);
            break;
        }
        obs.dec_states.push(dec.state_key());
        let mut consumer = dec.consumer();
        if stable.len() != total || consumer.has_pending_backrefs() {
            return Err(format!("[prefix] decoder lag: {} of {} produced bytes are consumable (must be all)", stable.len(), total));
        }
        let removed = drain(&mut consumer, p.d, &stable, "decoder")?;
        snaps.push((drained.len(), stable));
        drained.extend_from_slice(&snaps.last().unwrap().1[..removed]);
    }
    let verdict = match verdict {
        Some(v) => v,
        None => match dec.finish() {
            None => None,
            Some(out) => {
                let rest = out.flatten().map_err(|_| "decoder output has a pending placeholder".to_string())?;
                for (i, s) in out.stable_prefix().iter().enumerate() {
                    if !slice_ok(s.as_ptr() as usize, s.len(), &buffers) {
                        return Err(format!("[live] decoder: final slice #{} is neither in a live arena chunk nor in a caller buffer", i));
                    }
                }
                let mut output = drained;
                output.extend_from_slice(&rest);
                for (at, stable) in &snaps {
                    if output.len() < at + stable.len() || output[*at..at + stable.len()] != stable[..] {
                        return Err("[prefix] decoder: bytes consumable after a call are not a prefix of the final output".into());
                    }
                }
                if output.len() < prefill.len() || output[..prefill.len()] != *prefill {
                    return Err("decoder output does not start with the pre-filled iovec contents".into());
                }
                Some(output[prefill.len()..].to_vec())
            }
        },
    };
    Ok(verdict)
}

/// All oracles on one encoder output (C02 + C07 encoder half).
pub fn judge_encoding(input: &[u8], output: &[u8], limits: Limits) -> Result<(), String> {
    let (first, later) = limits_of(limits);
    let mut failures: Vec<String> = Vec::new();
    if refcodec::contains_stuff(output) {
        failures.push(format!("[shape] output contains the stuff sequence FE FD at offset {}", refcodec::find_stuff(output).unwrap()));
    }
    let canon = refcodec::encode(input, first, later);
    if output != canon.as_slice() {
        let at = output.iter().zip(canon.iter()).position(|(a, b)| a != b).unwrap_or(output.len().min(canon.len()));
        failures.push(format!(
            "[canon] output differs from the canonical encoding at offset {} (lengths {} vs {}): got [{}] expected [{}]",
            at,
            output.len(),
            canon.len(),
            mc_core::hex(&output[at.saturating_sub(4).min(output.len())..output.len().min(at + 8)]),
            mc_core::hex(&canon[at.saturating_sub(4).min(canon.len())..canon.len().min(at + 8)])
        ));
    }
    if limits.is_none() {
        let bound = input.len() + 1 + 2 * input.len().div_ceil(64008);
        if output.len() > bound {
            failures.push(format!("[shape] output length {} exceeds len + 1 + 2*ceil(len/64008) = {}", output.len(), bound));
        }
    }
    // the first failure whose class is switched on for this check; else the first one at all
    // (the caller filters irrelevant ones out)
    match failures.iter().find(|f| mc_core::relevant(f)) {
        Some(f) => Err(f.clone()),
        None => match failures.into_iter().next() {
            Some(f) => Err(f),
            None => Ok(()),
        },
    }
}
