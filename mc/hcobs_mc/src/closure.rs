//! Tier 4: state-space closure at tiny limits.  BFS over the codec's abstract
//! state (hook H2 key), each state reached by its shortest witness input; from
//! every reachable state every next piece p (all strings of length 1..=3) and
//! every follow-up q (length 0..=2) are fed as separate calls `w | p | q` by every
//! method pair, finished and compared with the reference codec.  Every reachable
//! (state, next piece) transition at these limits is thereby exercised with a
//! full-output comparison; this extends to inputs of any length under one
//! assumption checked by reading consume_once / decode: what a piece makes the
//! codec append or backfill depends only on that state and the piece.
use crate::codec::*;
use crate::tiny::*;
use mc_core::*;
use owning_iovec::OwningIovec;
use std::collections::HashMap;
use std::collections::VecDeque;

fn strings_up_to(alpha: &[u8], min: usize, max: usize) -> Vec<Vec<u8>> {
    let mut out: Vec<Vec<u8>> = Vec::new();
    let mut frontier: Vec<Vec<u8>> = vec![vec![]];
    if min == 0 {
        out.push(vec![]);
    }
    for len in 1..=max {
        let mut next = Vec::new();
        for s in &frontier {
            for a in alpha {
                let mut t = s.clone();
                t.push(*a);
                next.push(t);
            }
        }
        if len >= min {
            out.extend(next.iter().cloned());
        }
        frontier = next;
    }
    out
}

fn enc_state_after(w: &[u8], limits: Limits) -> (usize, usize, bool) {
    let mut enc = Enc::new(limits, OwningIovec::new());
    // the witness is fed as one copied call
    let tmp = w.to_vec();
    let _ = catch(|| match &mut enc {
        Enc::Lim(e) => e.encode_copy(&tmp),
        Enc::Prod(e) => e.encode_copy(&tmp),
    });
    let key = enc.state_key();
    drop(enc.finish());
    owning_iovec::verif::drain_quarantine();
    key
}

pub fn encoder_closure(ctx: &Ctx, rep: &mut Report, unit: &mut usize) {
    let prop = ctx.prop.clone();
    let pieces_p = strings_up_to(&ALPHA4, 1, 3);
    let pieces_q = strings_up_to(&ALPHA4, 0, 2);
    let methods = [M::Borrow, M::Copy, M::Anchored];
    for lim in LIMIT_PAIRS {
        let limits = Some(lim);
        // BFS for the reachable states (cheap; done identically by every worker)
        let mut witness: HashMap<(usize, usize, bool), Vec<u8>> = HashMap::new();
        let mut queue: VecDeque<Vec<u8>> = VecDeque::new();
        witness.insert(enc_state_after(&[], limits), vec![]);
        queue.push_back(vec![]);
        while let Some(w) = queue.pop_front() {
            for a in ALPHA4 {
                let mut w2 = w.clone();
                w2.push(a);
                let key = enc_state_after(&w2, limits);
                if !witness.contains_key(&key) {
                    witness.insert(key, w2.clone());
                    queue.push_back(w2);
                }
            }
        }
        let mut states: Vec<((usize, usize, bool), Vec<u8>)> = witness.into_iter().collect();
        states.sort();
        for (key, w) in &states {
            rep.state(hash_of(&("enc-closure", lim, key)));
            for p in &pieces_p {
                let u = *unit;
                *unit += 1;
                if !ctx.owns(u) {
                    continue;
                }
                for q in &pieces_q {
                    let mut input = w.clone();
                    input.extend_from_slice(p);
                    input.extend_from_slice(q);
                    let (a, b, n) = (w.len(), w.len() + p.len(), w.len() + p.len() + q.len());
                    for m1 in methods {
                        for m2 in methods {
                            let mut pieces = Vec::new();
                            if a > 0 {
                                pieces.push(Piece { lo: 0, hi: a, m: M::Copy, d: D::None });
                            }
                            pieces.push(Piece { lo: a, hi: b, m: m1, d: D::None });
                            if n > b {
                                pieces.push(Piece { lo: b, hi: n, m: m2, d: D::None });
                            } else if m2 != methods[0] {
                                continue;
                            }
                            rep.evaluations += 1;
                            rep.transitions += pieces.len() as u64;
                            rep.nontrivial += 1;
                            let mut obs = Obs::default();
                            if let Err(e) = enc_case(&input, &pieces, limits, false, &mut obs) {
                                let again = enc_case(&input, &pieces, limits, false, &mut Obs::default()).is_err();
                                record(rep, &prop, &CaseId { side: "enc", limits, data: &input, pieces: &pieces, prefill: false }, &e, again);
                            }
                        }
                    }
                }
            }
        }
        if ctx.owns(0) {
            rep.count(&format!("encoder_closure_states_{}_{}", lim.0, lim.1), states.len() as u64);
        }
    }
    rep.note(format!("tier 4, encoder state-space closure at limits {:?}: BFS over (max chunk size, bytes in chunk, held-back flag) reached a fix-point; from every state every next piece (all {} strings of length 1..=3 over {:02X?}) x every follow-up ({} strings of length 0..=2) x 3x3 methods, finished and compared with the canonical encoding", LIMIT_PAIRS, pieces_p.len(), ALPHA4, pieces_q.len()));
}

fn dec_state_after(w: &[u8], limits: Limits) -> Option<String> {
    let mut dec = Dec::new(limits, OwningIovec::new());
    let tmp = w.to_vec();
    let ok = match &mut dec {
        Dec::Lim(e) => e.decode_copy(&tmp).is_ok(),
        Dec::Prod(e) => e.decode_copy(&tmp).is_ok(),
    };
    let key = if ok { Some(dec.state_key()) } else { None };
    drop(dec);
    owning_iovec::verif::drain_quarantine();
    key
}

pub fn decoder_closure(ctx: &Ctx, rep: &mut Report, unit: &mut usize) {
    let prop = ctx.prop.clone();
    let pieces_p = strings_up_to(&DEC_ALPHA, 1, 3);
    let pieces_q = strings_up_to(&DEC_ALPHA, 0, 1);
    for lim in [(2usize, 3usize), (3, 5), (1, 1)] {
        let limits = Some(lim);
        let mut witness: HashMap<String, Vec<u8>> = HashMap::new();
        let mut queue: VecDeque<Vec<u8>> = VecDeque::new();
        witness.insert(dec_state_after(&[], limits).unwrap(), vec![]);
        queue.push_back(vec![]);
        while let Some(w) = queue.pop_front() {
            for a in DEC_ALPHA {
                let mut w2 = w.clone();
                w2.push(a);
                if let Some(key) = dec_state_after(&w2, limits) {
                    if !witness.contains_key(&key) {
                        witness.insert(key, w2.clone());
                        queue.push_back(w2);
                    }
                }
            }
        }
        let mut states: Vec<(String, Vec<u8>)> = witness.into_iter().collect();
        states.sort();
        for (key, w) in &states {
            rep.state(hash_of(&("dec-closure", lim, key)));
            for p in &pieces_p {
                let u = *unit;
                *unit += 1;
                if !ctx.owns(u) {
                    continue;
                }
                for q in &pieces_q {
                    let mut stream = w.clone();
                    stream.extend_from_slice(p);
                    stream.extend_from_slice(q);
                    let (a, b, n) = (w.len(), w.len() + p.len(), w.len() + p.len() + q.len());
                    for m in [M::Borrow, M::Copy, M::Anchored] {
                        let mut pieces = Vec::new();
                        if a > 0 {
                            pieces.push(Piece { lo: 0, hi: a, m: M::Copy, d: D::None });
                        }
                        pieces.push(Piece { lo: a, hi: b, m, d: D::None });
                        if n > b {
                            pieces.push(Piece { lo: b, hi: n, m, d: D::None });
                        }
                        rep.evaluations += 1;
                        rep.transitions += pieces.len() as u64;
                        let mut obs = Obs::default();
                        match dec_case(&stream, &pieces, limits, false, &mut obs) {
                            Ok(acc) => {
                                if acc {
                                    rep.nontrivial += 1;
                                }
                            }
                            Err(e) => {
                                let again = dec_case(&stream, &pieces, limits, false, &mut Obs::default()).is_err();
                                record(rep, &prop, &CaseId { side: "dec", limits, data: &stream, pieces: &pieces, prefill: false }, &e, again);
                            }
                        }
                    }
                }
            }
        }
        if ctx.owns(0) {
            rep.count(&format!("decoder_closure_states_{}_{}", lim.0, lim.1), states.len() as u64);
        }
    }
    rep.note(format!("tier 4, decoder state-space closure at tiny limits: BFS over the DecoderState (Debug rendering) reached a fix-point over the alphabet {:02X?}; from every state every next piece ({} strings of length 1..=3) x follow-up ({} strings of length 0..=1) x 3 methods, verdict and output compared with the reference decoder", DEC_ALPHA, pieces_p.len(), pieces_q.len()));
}
