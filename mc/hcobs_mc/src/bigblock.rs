//! Large calls at and around the arena's chunk size classes (the largest class is 1 MiB), and
//! drop points after large calls.
//!
//! (a) big blocks: a ~3.3 MiB input fed in blocks of B through encode_read / encode_copy / encode
//!     with a full drain after every call, the output compared with the reference encoding; the
//!     reference stream decoded in blocks of B through decode_read / decode_copy, compared with
//!     the input; then everything is dropped and the arena counters must be back.
//! (b) drop points: every sequence of copied calls over {5000, 600 000, 1 MiB + 1} bytes up to a
//!     length bound, a full drain after every call, everything dropped after the last call:
//!     nothing may stay alive, whatever the arena was doing when the history stopped.
use crate::codec::FullReader;
use hcobs::Decoder;
use hcobs::Encoder;
use mc_core::*;
use owning_iovec::ByteArena;
use std::num::NonZeroUsize;
use std::sync::OnceLock;

const INPUT_LEN: usize = 3 * (1 << 20) + 300_000;

fn input() -> &'static [u8] {
    static BUF: OnceLock<Vec<u8>> = OnceLock::new();
    BUF.get_or_init(|| {
        (0..INPUT_LEN)
            .map(|i| match i % 70_001 {
                70_000 => 0xFD,
                69_999 => 0xFE,
                35_000 => 0xFE,
                _ => 0x21 + (i % 89) as u8,
            })
            .collect()
    })
}

fn reference() -> &'static [u8] {
    static BUF: OnceLock<Vec<u8>> = OnceLock::new();
    BUF.get_or_init(|| refcodec::encode(input(), refcodec::PROD_FIRST, refcodec::PROD_LATER))
}

pub const BLOCKS: [usize; 6] = [65_536, (1 << 20) - 1, 1 << 20, (1 << 20) + 1, 2 << 20, 700_000];
pub const ENC_METHODS: [&str; 3] = ["encode_read", "encode_copy", "encode"];
pub const DEC_METHODS: [&str; 2] = ["decode_read", "decode_copy"];

fn first_diff(a: &[u8], b: &[u8]) -> usize {
    a.iter().zip(b.iter()).position(|(x, y)| x != y).unwrap_or(a.len().min(b.len()))
}

pub fn run_big(dir: &str, method: &str, block: usize) -> Result<(), String> {
    match catch(|| run_big_inner(dir, method, block)) {
        Ok(r) => r,
        Err(p) => Err(format!("panic: {}", p)),
    }
}

fn run_big_inner(dir: &str, method: &str, block: usize) -> Result<(), String> {
    owning_iovec::verif::set_quarantine(false);
    let live0 = (ByteArena::num_live_chunks(), ByteArena::num_live_bytes());
    let bound = 8 * (1usize << 20).max(block);
    let max = NonZeroUsize::MAX;
    if dir == "enc" {
        let data = input();
        let want = reference();
        let mut enc: Encoder<'static> = Encoder::new();
        let mut out: Vec<u8> = Vec::with_capacity(want.len());
        let mut pos = 0usize;
        while pos < data.len() {
            let piece = &data[pos..(pos + block).min(data.len())];
            match method {
                "encode_read" => {
                    let n = enc.encode_read(FullReader(piece), piece.len(), max).map_err(|e| format!("encode_read({}) failed: {}", piece.len(), e))?;
                    if n != piece.len() {
                        return Err(format!("encode_read returned {} of {}", n, piece.len()));
                    }
                }
                "encode_copy" => enc.encode_copy(piece),
                _ => enc.encode(piece),
            }
            pos += piece.len();
            let live = ByteArena::num_live_bytes() - live0.1;
            if live > bound {
                return Err(format!("[footprint] {} live arena bytes after {} input bytes in calls of {}", live, pos, block));
            }
            let mut consumer = enc.consumer();
            for s in consumer.stable_prefix() {
                out.extend_from_slice(s);
            }
            consumer.advance_slices(usize::MAX);
        }
        let fin = enc.finish();
        out.extend_from_slice(&fin.flatten().map_err(|_| "finish left a placeholder pending".to_string())?);
        drop(fin);
        if out != want {
            let d = first_diff(&out, want);
            return Err(format!("[canon] [roundtrip] [shape] encoder output differs from the canonical encoding at offset {} (lengths {} vs {})", d, out.len(), want.len()));
        }
    } else {
        let stream = reference();
        let want = input();
        let mut dec: Decoder<'static> = Decoder::new();
        let mut out: Vec<u8> = Vec::with_capacity(want.len());
        let mut pos = 0usize;
        while pos < stream.len() {
            let piece = &stream[pos..(pos + block).min(stream.len())];
            match method {
                "decode_read" => {
                    let n = dec.decode_read(FullReader(piece), piece.len(), max).map_err(|e| format!("[canon] [roundtrip] decode_read({}) failed on a canonical stream: {}", piece.len(), e))?;
                    if n != piece.len() {
                        return Err(format!("decode_read returned {} of {}", n, piece.len()));
                    }
                }
                _ => dec.decode_copy(piece).map_err(|e| format!("[canon] [roundtrip] decode_copy rejected a canonical stream: {}", e))?,
            }
            pos += piece.len();
            let live = ByteArena::num_live_bytes() - live0.1;
            if live > bound {
                return Err(format!("[footprint] {} live arena bytes after {} stream bytes in calls of {}", live, pos, block));
            }
            let mut consumer = dec.consumer();
            for s in consumer.stable_prefix() {
                out.extend_from_slice(s);
            }
            consumer.advance_slices(usize::MAX);
        }
        let fin = dec.finish().map_err(|e| format!("[canon] [roundtrip] finish failed on a canonical stream: {}", e))?;
        out.extend_from_slice(&fin.flatten().map_err(|_| "decoder output pending".to_string())?);
        drop(fin);
        if out != want {
            let d = first_diff(&out, want);
            return Err(format!("[canon] [roundtrip] decoded bytes differ from the original at offset {} (lengths {} vs {})", d, out.len(), want.len()));
        }
    }
    let live1 = (ByteArena::num_live_chunks(), ByteArena::num_live_bytes());
    if live1 != live0 {
        return Err(format!("[leak] arena leak after drop: live (chunks, bytes) {:?} -> {:?}", live0, live1));
    }
    Ok(())
}

pub const DROP_SIZES: [usize; 3] = [5_000, 600_000, (1 << 20) + 1];

pub fn run_drop_point(sizes: &[usize]) -> Result<(), String> {
    match catch(|| -> Result<(), String> {
        owning_iovec::verif::set_quarantine(false);
        let live0 = (ByteArena::num_live_chunks(), ByteArena::num_live_bytes());
        let data = input();
        let mut enc: Encoder<'static> = Encoder::new();
        let mut pos = 0usize;
        for z in sizes {
            let off = pos % (INPUT_LEN - (1 << 20) - 2);
            enc.encode_copy(&data[off..off + z]);
            pos += z;
            let mut consumer = enc.consumer();
            consumer.advance_slices(usize::MAX);
        }
        drop(enc.finish());
        let live1 = (ByteArena::num_live_chunks(), ByteArena::num_live_bytes());
        if live1 != live0 {
            return Err(format!("[leak] arena leak after drop: live (chunks, bytes) {:?} -> {:?}", live0, live1));
        }
        Ok(())
    }) {
        Ok(r) => r,
        Err(p) => Err(format!("panic: {}", p)),
    }
}

pub fn run(ctx: &Ctx, rep: &mut Report, unit: &mut usize) {
    let prop = ctx.prop.clone();
    let mut cases = 0u64;
    for block in BLOCKS {
        for (dir, methods) in [("enc", &ENC_METHODS[..]), ("dec", &DEC_METHODS[..])] {
            for method in methods {
                let u = *unit;
                *unit += 1;
                if !ctx.owns(u) {
                    continue;
                }
                cases += 1;
                rep.evaluations += 1;
                rep.transitions += (INPUT_LEN / block + 1) as u64;
                match run_big(dir, method, block) {
                    Ok(()) => rep.nontrivial += 1,
                    Err(e) if !relevant(&e) => rep.count("cases_failing_only_a_sibling_oracle", 1),
                    Err(e) => {
                        let replay_text = format!("big: dir={} method={} block={}\nobserved: {}\n", dir, method, block, e);
                        let mut how = "";
                        if run_big(dir, method, block).is_ok() {
                            // process-global state in the code under test (e.g. a static cache) shows a
                            // failure once per process: it must then reproduce in a fresh process
                            if !reproduces_in_fresh_process(&prop, &replay_text) {
                                machinery_failure(&format!("big-block violation did not reproduce: {} {} {}", dir, method, block));
                            }
                            how = " (once per process: reproduced in a fresh process; process-global state is involved)";
                        }
                        rep.violation(Violation {
                            key: format!("{}:big:{}:{}:{}", prop, dir, method, block),
                            summary: format!("hcobs, {} bytes through {} in calls of {} bytes with a full drain after each{}: {}", INPUT_LEN, method, block, how, e),
                            replay_text,
                        });
                    }
                }
            }
        }
    }
    // drop points
    let max_len = ctx.tier.pick(4usize, 7);
    let mut seqs: Vec<Vec<usize>> = Vec::new();
    let mut frontier: Vec<Vec<usize>> = vec![vec![]];
    for _ in 0..max_len {
        let mut next = Vec::new();
        for s in &frontier {
            for z in DROP_SIZES {
                let mut t = s.clone();
                t.push(z);
                next.push(t);
            }
        }
        seqs.extend(next.iter().cloned());
        frontier = next;
    }
    // Leaks may hide in process-global state of the code under test (a static cache), which makes
    // "live before == live after" depend on what earlier cases left behind: every history runs in
    // a fresh process, twice if it reports something.
    if oracle(Oracle::Leak) {
        for sizes in &seqs {
            let u = *unit;
            *unit += 1;
            if !ctx.owns(u) {
                continue;
            }
            cases += 1;
            rep.evaluations += 1;
            rep.transitions += sizes.len() as u64;
            let replay_text = format!("droppoint: {:?}\n", sizes);
            if let Some(e) = fresh_process_verdict(&prop, &replay_text) {
                if fresh_process_verdict(&prop, &replay_text).as_deref() != Some(e.as_str()) {
                    machinery_failure(&format!("drop-point violation did not reproduce in a second fresh process: {:?}", sizes));
                }
                rep.violation(Violation {
                    key: format!("{}:droppoint:{:?}", prop, sizes).replace(' ', ""),
                    summary: format!("hcobs Encoder in a fresh process, copied calls of {:?} bytes with a full drain after each, then everything dropped: {}", sizes, e),
                    replay_text,
                });
            }
        }
    }
    rep.count("bigblock_cases", cases);
    rep.note(format!(
        "big blocks: a {} byte input through encode_read / encode_copy / encode, and its canonical stream through decode_read / decode_copy, in calls of {:?} bytes (around the arena's largest chunk size class, 1 MiB) with a full drain after every call, compared with the reference codec, footprint <= 8 x max(1 MiB, call), no leak; drop points: every sequence of copied calls over {:?} up to length {} with a full drain after each, then everything dropped: no leak",
        INPUT_LEN, BLOCKS, DROP_SIZES, max_len
    ));
}

pub fn replay(text: &str) -> Result<String, String> {
    if let Some(spec) = field(text, "big") {
        let get = |name: &str| -> Option<&str> {
            let start = spec.find(&format!("{}=", name))? + name.len() + 1;
            let rest = &spec[start..];
            Some(&rest[..rest.find(' ').unwrap_or(rest.len())])
        };
        let (Some(dir), Some(method), Some(block)) = (get("dir"), get("method"), get("block").and_then(|b| b.parse::<usize>().ok())) else {
            machinery_failure("cannot parse big-block artefact");
        };
        return match run_big(dir, method, block) {
            Err(e) => Ok(e),
            Ok(()) => Err("agrees with the reference codec, no leak".to_string()),
        };
    }
    let Some(spec) = field(text, "droppoint") else {
        machinery_failure("cannot parse artefact");
    };
    let sizes: Vec<usize> = spec.trim_matches(|c| c == '[' || c == ']').split(',').filter_map(|x| x.trim().parse().ok()).collect();
    match run_drop_point(&sizes) {
        Err(e) => Ok(e),
        Ok(()) => Err("nothing leaked".to_string()),
    }
}
