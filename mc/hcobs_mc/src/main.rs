//! hcobs_mc: bounded-exhaustive exploration of the real HCOBS Encoder/Decoder
//! (C01 round trip, C02 output, C07 wire format, C09 streaming prefix + lag;
//! C05 / C10 clauses for the codecs).
mod arena_fill;
mod bigblock;
mod closure;
mod codec;
mod longrun;
mod prod;
mod tiny;
mod twin;

use mc_core::*;
use tiny::Focus;

fn run(ctx: &Ctx) -> Report {
    let mut rep = Report::new();
    owning_iovec::verif::set_quarantine(true);
    select_oracles(&ctx.prop);
    let mut unit = 0usize;
    match ctx.prop.as_str() {
        "C01" => {
            tiny::tier1(ctx, &mut rep, Focus::RoundTrip, &mut unit);
            prod::boundary_family(ctx, &mut rep, Focus::RoundTrip, &mut unit);
            prod::alignment_family(ctx, &mut rep, &mut unit);
            closure::encoder_closure(ctx, &mut rep, &mut unit);
            closure::decoder_closure(ctx, &mut rep, &mut unit);
            twin::run(ctx, &mut rep, &mut unit);
            prod::many_pieces(ctx, &mut rep, &mut unit);
            prod::dense_chunks(ctx, &mut rep, &mut unit);
            owning_iovec::verif::drain_quarantine();
            bigblock::run(ctx, &mut rep, &mut unit);
            longrun::run_roundtrip(ctx, &mut rep, &mut unit);
            owning_iovec::verif::set_quarantine(true);
        }
        "C02" => {
            tiny::tier1(ctx, &mut rep, Focus::Output, &mut unit);
            prod::boundary_family(ctx, &mut rep, Focus::Output, &mut unit);
            prod::alignment_family(ctx, &mut rep, &mut unit);
            prod::find_stuff_exhaustive(ctx, &mut rep, &mut unit);
            closure::encoder_closure(ctx, &mut rep, &mut unit);
            twin::run(ctx, &mut rep, &mut unit);
            prod::many_pieces(ctx, &mut rep, &mut unit);
            prod::dense_chunks(ctx, &mut rep, &mut unit);
            prod::length_sweep(ctx, &mut rep, &mut unit);
        }
        "C07" => {
            tiny::tier1(ctx, &mut rep, Focus::Format, &mut unit);
            tiny::decoder_accept_set(ctx, &mut rep, &mut unit);
            prod::boundary_family(ctx, &mut rep, Focus::Format, &mut unit);
            prod::decoder_header_space(ctx, &mut rep, &mut unit);
            prod::length_sweep(ctx, &mut rep, &mut unit);
            closure::encoder_closure(ctx, &mut rep, &mut unit);
            closure::decoder_closure(ctx, &mut rep, &mut unit);
            twin::run(ctx, &mut rep, &mut unit);
            prod::many_pieces(ctx, &mut rep, &mut unit);
            prod::dense_chunks(ctx, &mut rep, &mut unit);
            owning_iovec::verif::drain_quarantine();
            bigblock::run(ctx, &mut rep, &mut unit);
            owning_iovec::verif::set_quarantine(true);
        }
        "C09" => {
            let t0 = std::time::Instant::now();
            tiny::tier1(ctx, &mut rep, Focus::Drain, &mut unit);
            rep.count_max("max_stage_ms_tier1", t0.elapsed().as_millis() as u64);
            let t0 = std::time::Instant::now();
            prod::boundary_family(ctx, &mut rep, Focus::Drain, &mut unit);
            rep.count_max("max_stage_ms_boundary", t0.elapsed().as_millis() as u64);
            let t0 = std::time::Instant::now();
            arena_fill::arena_fill_family(ctx, &mut rep, &mut unit);
            rep.count_max("max_stage_ms_arena_fill", t0.elapsed().as_millis() as u64);
            prod::dense_chunks(ctx, &mut rep, &mut unit);
            twin::run(ctx, &mut rep, &mut unit);
            owning_iovec::verif::drain_quarantine();
            let t0 = std::time::Instant::now();
            longrun::run(ctx, &mut rep, &mut unit);
            rep.count_max("max_stage_ms_longrun", t0.elapsed().as_millis() as u64);
        }
        "C05" => {
            // the C05 clauses for the codecs: every slice exposed by Encoder/Decoder consumers
            // (anchored input included, decode errors included) lies in live memory
            tiny::tier1(ctx, &mut rep, Focus::Drain, &mut unit);
            prod::boundary_family(ctx, &mut rep, Focus::Drain, &mut unit);
            prod::decoder_error_paths(ctx, &mut rep, &mut unit);
            arena_fill::arena_fill_family(ctx, &mut rep, &mut unit);
        }
        "C10" => {
            // the C10 clauses for the codecs: no leak after any run, bounded footprint while streaming
            prod::boundary_family(ctx, &mut rep, Focus::Drain, &mut unit);
            prod::decoder_error_paths(ctx, &mut rep, &mut unit);
            arena_fill::arena_fill_family(ctx, &mut rep, &mut unit);
            owning_iovec::verif::drain_quarantine();
            longrun::run(ctx, &mut rep, &mut unit);
            bigblock::run(ctx, &mut rep, &mut unit);
        }
        other => machinery_failure(&format!("hcobs_mc does not serve {}", other)),
    }
    owning_iovec::verif::drain_quarantine();
    rep
}

fn select_oracles(prop: &str) {
    match prop {
        "C01" => set_oracles(&[Oracle::RoundTrip]),
        "C02" => set_oracles(&[Oracle::OutputShape]),
        "C07" => set_oracles(&[Oracle::Canonical]),
        "C09" => set_oracles(&[Oracle::PrefixLag]),
        "C05" => set_oracles(&[Oracle::Liveness]),
        "C10" => set_oracles(&[Oracle::Leak, Oracle::Footprint]),
        _ => {}
    }
}

fn replay(ctx: &Ctx, text: &str) -> Result<String, String> {
    select_oracles(&ctx.prop);
    if field(text, "stream").is_some() {
        return longrun::replay(text);
    }
    if field(text, "twin").is_some() {
        return twin::replay(text);
    }
    if field(text, "big").is_some() || field(text, "droppoint").is_some() {
        return bigblock::replay(text);
    }
    owning_iovec::verif::set_quarantine(true);
    let Some((side, limits, prefill, data, pieces)) = field(text, "case").and_then(tiny::parse_case) else {
        machinery_failure("cannot parse case");
    };
    let mut obs = codec::Obs::default();
    if side == "enc" {
        match tiny::enc_case(&data, &pieces, limits, prefill, &mut obs) {
            Err(e) if !relevant(&e) => Err(format!("only a sibling property's oracle fails: {}", e)),
            Err(e) => Ok(e),
            Ok(()) => Err("encoder output is canonical, stuff-free, prefix-consistent and leak-free".into()),
        }
    } else {
        match tiny::dec_case(&data, &pieces, limits, prefill, &mut obs) {
            Err(e) if !relevant(&e) => Err(format!("only a sibling property's oracle fails: {}", e)),
            Err(e) => Ok(e),
            Ok(acc) => Err(format!("decoder verdict ({}) and output equal the reference decoder", if acc { "accept" } else { "reject" })),
        }
    }
}

fn rule(ctx: &Ctx) -> String {
    format!("[{}] every case in the finite products described in notes is run on the real Encoder/Decoder (tiny limits through hook H2, production limits through the public API). Oracles on every run: output == independent canonical reference encoder (literal limits 252/64008/253), no FE FD anywhere in drained++finished output, length bound, real decoder returns the input under every enumerated segmentation/method, decoder verdict == reference decoder, bytes consumable after each call form a prefix of the final output, drain return values, encoder lag bound / decoder lag zero, every exposed slice in a live chunk or caller buffer, no arena leak. states = distinct codec state-machine states reached (hook H2 keys); non-trivial = multi-piece runs.", ctx.prop)
}

fn main() {
    // a runaway execution must die alone (see mc_core::limit_address_space)
    mc_core::limit_address_space(4 << 30);
    main_entry(Engine {
        name: "hcobs_mc",
        level: |_| "model_checking",
        rule,
        run,
        replay,
        assumptions: |_| vec![
            "the codec compares input bytes only with FE and FD (alphabet has a representative of every class: FE, FD, below FD, FD-1, above FE)".into(),
            "reference codec in mc_core::refcodec written from the format description with literal limits".into(),
        ],
        decode_breadcrumb: Some(|ctx, bytes| {
            let text = String::from_utf8_lossy(bytes).to_string();
            if text.trim().is_empty() {
                return None;
            }
            Some((format!("{}:abort:{}", ctx.prop, text.trim().replace(['\n', ' '], ";")), text))
        }),
    });
}
