//! Arena-boundary family: anchored input whose read fills the codec's current
//! arena chunk exactly (or leaves 1..3 bytes), so that the very next internal
//! copy (a chunk header, an implicit stuff sequence) opens a new chunk while
//! slices borrowed from the old one are still queued.  The read size is taken
//! from a dry run (arena behaviour is deterministic).
use crate::codec::*;
use crate::tiny::{dec_case_expect, enc_case, record, stream_for, CaseId};
use mc_core::*;
use owning_iovec::OwningIovec;

fn shape(kind: usize, len: usize) -> Vec<u8> {
    (0..len)
        .map(|i| match kind {
            0 => 0x78,
            1 => match i % 300 {
                298 => 0xFE,
                299 => 0xFD,
                _ => 0x41 + (i % 23) as u8,
            },
            _ => {
                if i + 1 == len {
                    0xFE
                } else {
                    0x30 + (i % 10) as u8
                }
            }
        })
        .collect()
}

fn encoder_remaining_after(pre: &[u8]) -> usize {
    let mut enc = Enc::new(None, OwningIovec::new());
    let _ = enc.feed(pre, M::Copy);
    let mut c = enc.consumer();
    let r = c.arena().remaining();
    drop(c);
    drop(enc.finish());
    owning_iovec::verif::drain_quarantine();
    r
}

fn decoder_remaining_after(prefix: &[u8]) -> usize {
    let mut dec = Dec::new(None, OwningIovec::new());
    let _ = dec.feed(prefix, M::Copy);
    let mut c = dec.consumer();
    let r = c.arena().remaining();
    drop(c);
    drop(dec);
    owning_iovec::verif::drain_quarantine();
    r
}

pub fn arena_fill_family(ctx: &Ctx, rep: &mut Report, unit: &mut usize) {
    let prop = ctx.prop.clone();
    let drains = [D::None, D::ConsumeAll, D::AdvanceAll, D::Consume1, D::Read2];
    let mut cases = 0u64;
    // ---- encoder
    for pre_len in [0usize, 10, 300, 4000] {
        for kind in 0..3usize {
            let u = *unit;
            *unit += 1;
            if !ctx.owns(u) {
                continue;
            }
            let pre = shape(kind, pre_len);
            let remaining = encoder_remaining_after(&pre);
            for leave in 0..=3usize {
                // when the chunk is (nearly) exhausted already the read gets a chunk of its own: still run it
                let body_len = if remaining > leave { remaining - leave } else { 4096 - leave };
                let body = shape(kind, body_len);
                let follow = [0x7Au8, 0xFE, 0xFD, 0x7A];
                let mut input = pre.clone();
                input.extend_from_slice(&body);
                input.extend_from_slice(&follow);
                let (a, b, n) = (pre.len(), pre.len() + body.len(), input.len());
                for m in [M::Anchored, M::Read] {
                    for d1 in drains {
                        for d2 in [D::None, D::ConsumeAll] {
                            let mut pieces = Vec::new();
                            if a > 0 {
                                pieces.push(Piece { lo: 0, hi: a, m: M::Copy, d: D::None });
                            }
                            pieces.push(Piece { lo: a, hi: b, m, d: d1 });
                            pieces.push(Piece { lo: b, hi: n, m: M::Copy, d: d2 });
                            rep.evaluations += 1;
                            rep.transitions += pieces.len() as u64 + 1;
                            rep.nontrivial += 1;
                            cases += 1;
                            if let Err(e) = enc_case(&input, &pieces, None, false, &mut Obs::default()) {
                                let again = enc_case(&input, &pieces, None, false, &mut Obs::default()).is_err();
                                record(rep, &prop, &CaseId { side: "enc", limits: None, data: &input, pieces: &pieces, prefill: false }, &e, again);
                            }
                        }
                    }
                }
                rep.state(hash_of(&("arena-fill-enc", pre_len, kind, leave)));
            }
        }
    }
    // ---- decoder: the anchored piece of the *encoded* stream fills the decoder's chunk
    for kind in 0..3usize {
        for msg_len in [9000usize, 70_000] {
            let u = *unit;
            *unit += 1;
            if !ctx.owns(u) {
                continue;
            }
            let message = shape(kind, msg_len);
            let enc = stream_for(&message, None);
            for split in [1usize, 200, 700] {
                let remaining = decoder_remaining_after(&enc[..split]);
                for leave in 0..=3usize {
                    let want = if remaining > leave { remaining - leave } else { 4096 - leave };
                    let body_len = want.min(enc.len() - split - 1);
                    let (a, b, n) = (split, split + body_len, enc.len());
                    for m in [M::Anchored, M::Read] {
                        for d1 in drains {
                            let pieces = [Piece { lo: 0, hi: a, m: M::Copy, d: D::None }, Piece { lo: a, hi: b, m, d: d1 }, Piece { lo: b, hi: n, m: M::Copy, d: D::None }];
                            rep.evaluations += 1;
                            rep.transitions += 4;
                            rep.nontrivial += 1;
                            cases += 1;
                            let verdict = |obs: &mut Obs| dec_case_expect(&enc, &pieces, None, false, obs, Some(&message)).map(|_| ());
                            if let Err(e) = verdict(&mut Obs::default()) {
                                let again = verdict(&mut Obs::default()).is_err();
                                record(rep, &prop, &CaseId { side: "dec", limits: None, data: &enc, pieces: &pieces, prefill: false }, &e, again);
                            }
                        }
                    }
                    rep.state(hash_of(&("arena-fill-dec", msg_len, kind, split, leave)));
                }
            }
        }
    }
    rep.count("arena_fill_cases", cases);
    rep.note("arena-boundary family (production limits): after a copied prefix of 0 / 10 / 300 / 4000 bytes, an anchored (read_n + encode_anchored, or encode_read) piece sized to leave exactly 0..3 bytes in the encoder's current arena chunk, 3 payload shapes, 5 drain operations after it, then a copied follow-up containing a stuff sequence, finish; the same on the decoder with the anchored piece cut out of the encoded stream".to_string());
}
