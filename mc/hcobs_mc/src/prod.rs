//! Production-limit tiers (public Encoder / Decoder): every distance to the
//! 252 / 64008 chunk limits x stuff bytes nearby x cut sets x input methods;
//! alignment family; exhaustive find_stuff_sequence; decoder header space.
use crate::codec::*;
use crate::tiny::{dec_case, dec_case_expect, enc_case, record, stream_for, CaseId, Focus};
use mc_core::refcodec;
use mc_core::*;

const X: u8 = 0x78;

/// Distances to enumerate for the chunk in progress (limit = 252 or 64008).
fn k_values(limit: usize, tier: Tier, focus: Focus) -> Vec<usize> {
    let mut v: Vec<usize> = Vec::new();
    let around = |v: &mut Vec<usize>, c: usize, r: usize| {
        for d in 0..=2 * r {
            let k = (c + d).saturating_sub(r);
            if k <= limit + 2 {
                v.push(k);
            }
        }
    };
    around(&mut v, 0, 3);
    around(&mut v, limit, 3);
    around(&mut v, 64, 2); // SMALL_COPY
    around(&mut v, 256, 2); // MAX_OPPORTUNISTIC_COPY
    around(&mut v, 4096, 2); // first arena chunk / plausible block sizes
    if tier == Tier::Thorough {
        around(&mut v, 0, 8);
        around(&mut v, limit, 8);
        around(&mut v, 4096, 6);
        around(&mut v, 65536, 3);
        if focus == Focus::Format {
            // every distance for the 252-byte first chunk; a stride for the 64008 one
            for k in 0..=limit.min(260) {
                v.push(k);
            }
            let mut k = 0;
            while k <= limit + 2 {
                v.push(k);
                k += 251;
            }
        }
    }
    let steps = 12;
    for i in 1..steps {
        v.push(limit * i / steps);
    }
    v.retain(|k| *k <= limit + 2);
    v.sort_unstable();
    v.dedup();
    v
}

fn p_strings(max_len: usize) -> Vec<Vec<u8>> {
    let alpha = [0xFEu8, 0xFD, X];
    let mut out: Vec<Vec<u8>> = vec![vec![]];
    let mut frontier: Vec<Vec<u8>> = vec![vec![]];
    for _ in 0..max_len {
        let mut next = Vec::new();
        for s in &frontier {
            for a in alpha {
                let mut t = s.clone();
                t.push(a);
                next.push(t);
            }
        }
        out.extend(next.iter().cloned());
        frontier = next;
    }
    out
}

/// 8 method masks by piece index: 4 uniform + 4 alternating.
fn method_for(mask: usize, piece: usize) -> M {
    const TABLE: [[M; 2]; 8] = [
        [M::Borrow, M::Borrow],
        [M::Copy, M::Copy],
        [M::Anchored, M::Anchored],
        [M::Read, M::Read],
        [M::Borrow, M::Copy],
        [M::Copy, M::Anchored],
        [M::Anchored, M::Borrow],
        [M::Read, M::Copy],
    ];
    TABLE[mask % 8][piece % 2]
}

fn drain_for(mask: usize, piece: usize) -> D {
    ALL_DRAINS[(mask + piece * 7) % ALL_DRAINS.len()]
}

struct Family {
    inputs: u64,
}

/// pre . x^k . h . p . x^t with all subsets of cuts at the part boundaries and inside p.
pub fn boundary_family(ctx: &Ctx, rep: &mut Report, focus: Focus, unit: &mut usize) {
    let prop = ctx.prop.clone();
    let pres: [(&str, Vec<u8>); 3] = [("none", vec![]), ("full-first-chunk", vec![X; 252]), ("stuff", vec![0xFE, 0xFD])];
    let ps = p_strings(ctx.tier.pick(2, 3));
    let mut fam = Family { inputs: 0 };
    for (pre_name, pre) in &pres {
        let limit = if pre.is_empty() { refcodec::PROD_FIRST } else { refcodec::PROD_LATER };
        for k in k_values(limit, ctx.tier, focus) {
            for h in [false, true] {
                for p in &ps {
                    for tail in [0usize, 1, limit + 1] {
                        let u = *unit;
                        *unit += 1;
                        if !ctx.owns(u) {
                            continue;
                        }
                        // big inputs: only the tails that matter (avoid 128 KiB inputs with a full second pass)
                        let mut input = pre.clone();
                        input.extend(std::iter::repeat(X).take(k));
                        let b_pre = pre.len();
                        let b_k = input.len();
                        if h {
                            input.push(0xFE);
                        }
                        let b_h = input.len();
                        input.extend_from_slice(p);
                        let b_p = input.len();
                        input.extend(std::iter::repeat(X).take(tail));
                        let n = input.len();
                        // candidate cuts
                        let mut cuts: Vec<usize> = vec![b_pre, b_k, b_h];
                        for i in b_h + 1..b_p {
                            cuts.push(i);
                        }
                        cuts.push(b_p);
                        cuts.retain(|c| *c > 0 && *c < n);
                        cuts.sort_unstable();
                        cuts.dedup();
                        fam.inputs += 1;
                        let masks = if n > 8192 { 4 } else { 8 };
                        for subset in 0..(1usize << cuts.len()) {
                            let mut bounds = vec![0usize];
                            for (ci, c) in cuts.iter().enumerate() {
                                if (subset >> ci) & 1 == 1 {
                                    bounds.push(*c);
                                }
                            }
                            bounds.push(n);
                            for mask in 0..masks {
                                let with_drains = matches!(focus, Focus::Drain | Focus::Output | Focus::RoundTrip) && mask < 3;
                                let pieces: Vec<Piece> = bounds
                                    .windows(2)
                                    .enumerate()
                                    .map(|(i, w)| Piece { lo: w[0], hi: w[1], m: method_for(mask + if n > 8192 { subset } else { 0 }, i), d: if with_drains { drain_for(mask + subset, i) } else { D::None } })
                                    .collect();
                                rep.evaluations += 1;
                                rep.transitions += pieces.len() as u64 + 1;
                                let mut obs = Obs::default();
                                match enc_case(&input, &pieces, None, false, &mut obs) {
                                    Ok(()) => {
                                        if pieces.len() > 1 {
                                            rep.nontrivial += 1;
                                        }
                                        rep.count_max("max_encoder_lag_bytes", obs.max_lag as u64);
                                        for s in &obs.enc_states {
                                            rep.state(hash_of(&("prod-enc", s.0, s.1.min(300), s.1 + 3 >= s.0, s.2)));
                                        }
                                    }
                                    Err(e) => {
                                        let again = enc_case(&input, &pieces, None, false, &mut Obs::default()).is_err();
                                        record(rep, &prop, &CaseId { side: "enc", limits: None, data: &input, pieces: &pieces, prefill: false }, &e, again);
                                    }
                                }
                            }
                        }
                        // decoding side: the canonical stream cut around every header
                        if focus != Focus::Output {
                            decode_family(rep, &prop, &input);
                        }
                        if rep.want_sample() {
                            rep.sample(format!("prod limits: pre={} k={} h={} p=[{}] tail={} -> {} cut subsets x {} method masks, then decoded back", pre_name, k, h, hex(p), tail, 1usize << cuts.len(), masks));
                        }
                        rep.outcome(hash_of(&(pre_name, k.min(limit + 3) >= limit, h, p.len(), tail > 1)));
                    }
                }
            }
        }
    }
    rep.count("boundary_family_inputs", fam.inputs);
    rep.note(format!(
        "production limits, boundary family: input = pre . x^k . h . p . x^t, pre in {{none, 252-byte full first chunk, FE FD}}, k in {} values per limit incl. every distance within 3 (quick) / 8 (thorough) of 0, 64, 256, 4096 and the chunk limit, h in {{none, FE}}, p in all {} strings over {{FE, FD, x}} of length <= {}, t in {{0, 1, limit+1}}; every subset of the cuts at part boundaries and inside p x 8 (4 for > 8 KiB) method masks; canonical stream decoded under cuts around every header",
        k_values(refcodec::PROD_LATER, ctx.tier, focus).len(),
        ps.len(),
        ctx.tier.pick(2, 3)
    ));
}

/// Header positions of a canonical production stream.
fn header_positions(enc: &[u8]) -> Vec<usize> {
    let mut pos = 0usize;
    let mut out = Vec::new();
    let mut first = true;
    while pos < enc.len() {
        out.push(pos);
        let size = if first {
            let s = enc[pos] as usize;
            pos += 1;
            s
        } else {
            if pos + 1 >= enc.len() {
                break;
            }
            let s = enc[pos] as usize + 253 * enc[pos + 1] as usize;
            pos += 2;
            s
        };
        first = false;
        pos = pos.saturating_add(size);
    }
    out
}

fn decode_family(rep: &mut Report, prop: &str, input: &[u8]) {
    let enc = stream_for(input, None);
    let n = enc.len();
    let mut cut_candidates: Vec<usize> = Vec::new();
    for h in header_positions(&enc) {
        for d in 0..=4usize {
            cut_candidates.push(h + d);
            cut_candidates.push(h.saturating_sub(d));
        }
    }
    cut_candidates.push(n / 2);
    cut_candidates.retain(|c| *c > 0 && *c < n);
    cut_candidates.sort_unstable();
    cut_candidates.dedup();
    let mut run = |pieces: &[Piece]| {
        rep.evaluations += 1;
        rep.transitions += pieces.len() as u64 + 1;
        let mut obs = Obs::default();
        let verdict = |obs: &mut Obs| dec_case_expect(&enc, pieces, None, false, obs, Some(input)).map(|_| ());
        match verdict(&mut obs) {
            Ok(()) => {
                if pieces.len() > 1 {
                    rep.nontrivial += 1;
                }
                for s in &obs.dec_states {
                    rep.state(hash_of(&("prod-dec", s.split('(').next().map(|x| x.to_string()))));
                }
            }
            Err(e) => {
                let again = verdict(&mut Obs::default()).is_err();
                record(rep, prop, &CaseId { side: "dec", limits: None, data: &enc, pieces, prefill: false }, &e, again);
            }
        }
    };
    for m in METHODS {
        run(&[Piece { lo: 0, hi: n, m, d: D::None }]);
    }
    for (ci, c) in cut_candidates.iter().enumerate() {
        let m = METHODS[ci % 4];
        let m2 = METHODS[(ci / 4 + 1) % 4];
        run(&[Piece { lo: 0, hi: *c, m, d: DRAINS[ci % 6] }, Piece { lo: *c, hi: n, m: m2, d: D::None }]);
        // a zero-length call at the cut
        run(&[Piece { lo: 0, hi: *c, m, d: D::None }, Piece { lo: *c, hi: *c, m: METHODS[ci % 2], d: D::None }, Piece { lo: *c, hi: n, m: m2, d: D::None }]);
    }
    // every candidate cut at once
    for mask in 0..4 {
        let mut bounds = vec![0usize];
        bounds.extend(cut_candidates.iter().copied());
        bounds.push(n);
        let pieces: Vec<Piece> = bounds.windows(2).enumerate().map(|(i, w)| Piece { lo: w[0], hi: w[1], m: method_for(mask + 4, i + mask), d: if mask == 0 { D::None } else { drain_for(mask, i) } }).collect();
        run(&pieces);
    }
}

/// x^a . q . x^b for all q over {FE, FD, FF, 00} of length <= 4: alignment-sensitive scanning.
pub fn alignment_family(ctx: &Ctx, rep: &mut Report, unit: &mut usize) {
    let prop = ctx.prop.clone();
    let alpha = [0xFEu8, 0xFD, 0xFF, 0x00];
    let mut qs: Vec<Vec<u8>> = vec![vec![]];
    let mut frontier: Vec<Vec<u8>> = vec![vec![]];
    for _ in 0..4 {
        let mut next = Vec::new();
        for s in &frontier {
            for a in alpha {
                let mut t = s.clone();
                t.push(a);
                next.push(t);
            }
        }
        qs.extend(next.iter().cloned());
        frontier = next;
    }
    let mut inputs = 0u64;
    for q in &qs {
        let u = *unit;
        *unit += 1;
        if !ctx.owns(u) {
            continue;
        }
        for a in 0..=16usize {
            for b in [0usize, 1, 7, 8, 9, 17] {
                let mut input = vec![X; a];
                input.extend_from_slice(q);
                input.extend(std::iter::repeat(X).take(b));
                let n = input.len();
                inputs += 1;
                let mut cases: Vec<Vec<Piece>> = vec![
                    vec![Piece { lo: 0, hi: n, m: M::Borrow, d: D::None }],
                    vec![Piece { lo: 0, hi: n, m: M::Copy, d: D::None }],
                    vec![Piece { lo: 0, hi: n, m: M::Anchored, d: D::None }],
                ];
                if a + 1 < n {
                    cases.push(vec![Piece { lo: 0, hi: a + 1, m: M::Copy, d: D::None }, Piece { lo: a + 1, hi: n, m: M::Borrow, d: D::None }]);
                }
                for pieces in &cases {
                    rep.evaluations += 1;
                    rep.transitions += pieces.len() as u64 + 1;
                    let mut obs = Obs::default();
                    if let Err(e) = enc_case(&input, pieces, None, false, &mut obs) {
                        let again = enc_case(&input, pieces, None, false, &mut Obs::default()).is_err();
                        record(rep, &prop, &CaseId { side: "enc", limits: None, data: &input, pieces, prefill: false }, &e, again);
                    }
                }
                // and the decoder gets it back
                let enc = stream_for(&input, None);
                let pieces = [Piece { lo: 0, hi: enc.len(), m: M::Borrow, d: D::None }];
                rep.evaluations += 1;
                rep.transitions += 2;
                let mut obs = Obs::default();
                if let Err(e) = dec_case_expect(&enc, &pieces, None, false, &mut obs, Some(&input)) {
                    record(rep, &prop, &CaseId { side: "dec", limits: None, data: &enc, pieces: &pieces, prefill: false }, &e, true);
                }
            }
        }
        rep.outcome(hash_of(&("align", q.len(), refcodec::contains_stuff(q))));
    }
    rep.count("alignment_family_inputs", inputs);
    rep.note(format!("production limits, alignment family: x^a . q . x^b for all {} strings q over {{FE, FD, FF, 00}} of length <= 4, a in 0..=16, b in {{0,1,7,8,9,17}} x {{borrow, copy, anchored, split after a+1}}", qs.len()));
}

/// hcobs::find_stuff_sequence against the reference on all strings <= 9 over 5 letters and the x^a.q.x^b family.
pub fn find_stuff_exhaustive(ctx: &Ctx, rep: &mut Report, unit: &mut usize) {
    let prop = ctx.prop.clone();
    let alpha = [0xFEu8, 0xFD, 0xFF, 0x00, 0xFC];
    let max_len = ctx.tier.pick(9, 10);
    let check = |rep: &mut Report, s: &[u8]| {
        rep.evaluations += 1;
        let got = catch(|| hcobs::find_stuff_sequence(s));
        let want = refcodec::find_stuff(s);
        if got != Ok(want) {
            rep.violation(Violation {
                key: format!("{}:find_stuff:{}", prop, hex(s).replace(' ', "")),
                summary: format!("find_stuff_sequence([{}]) = {:?} expected {:?}", hex(s), got, want),
                replay_text: format!("case: side=find limits=prod prefill=false data=[{}] pieces=[]\nobserved: {:?} expected {:?}\n", crate::tiny::hex_full(s), got, want),
            });
        }
    };
    for len in 0..=max_len {
        let total = alpha.len().pow(len as u32);
        // partition on the code
        let chunk = 15_625usize.max(1);
        let mut start = 0usize;
        while start < total {
            let u = *unit;
            *unit += 1;
            let end = (start + chunk).min(total);
            if ctx.owns(u) {
                let mut buf = vec![0u8; len];
                for code in start..end {
                    let mut c = code;
                    for slot in buf.iter_mut() {
                        *slot = alpha[c % alpha.len()];
                        c /= alpha.len();
                    }
                    check(rep, &buf);
                }
            }
            start = end;
        }
    }
    let u = *unit;
    *unit += 1;
    if ctx.owns(u) {
        for a in 0..=24usize {
            for q in [&[0xFEu8, 0xFD][..], &[0xFE, 0xFF, 0xFD], &[0xFE, 0xFE, 0xFD], &[0xFE, 0xFF, 0xFF, 0xFD], &[0xFD, 0xFE], &[0xFE], &[0xFF, 0xFD]] {
                for b in 0..=24usize {
                    let mut s = vec![X; a];
                    s.extend_from_slice(q);
                    s.extend(std::iter::repeat(X).take(b));
                    check(rep, &s);
                }
            }
        }
    }
    rep.note(format!("find_stuff_sequence: all strings over {{FE, FD, FF, 00, FC}} up to length {} and 7 patterns at every alignment 0..=24 with tails 0..=24, against a two-line reference", max_len));
}

/// C07, decoder at production limits: the whole header space.
pub fn decoder_header_space(ctx: &Ctx, rep: &mut Report, unit: &mut usize) {
    let prop = ctx.prop.clone();
    static BODY: [u8; 64010] = [0x55; 64010];
    let run = |rep: &mut Report, stream: &[u8], pieces: &[Piece]| {
        rep.evaluations += 1;
        rep.transitions += pieces.len() as u64 + 1;
        let mut obs = Obs::default();
        match dec_case(stream, pieces, None, false, &mut obs) {
            Ok(acc) => {
                if acc {
                    rep.count("decoder_accepts", 1);
                    rep.nontrivial += 1;
                }
                for s in &obs.dec_states {
                    rep.state(hash_of(&("prod-dec", s.split('(').next().map(|x| x.to_string()))));
                }
            }
            Err(e) => {
                let again = dec_case(stream, pieces, None, false, &mut Obs::default()).is_err();
                record(rep, &prop, &CaseId { side: "dec", limits: None, data: stream, pieces, prefill: false }, &e, again);
            }
        }
    };
    // all 256 first-header bytes x {no body, body one short, exact body, exact body + 00 00, body + extra byte}
    for b0 in 0..=255usize {
        let u = *unit;
        *unit += 1;
        if !ctx.owns(u) {
            continue;
        }
        let size = b0.min(252);
        for variant in 0..5 {
            let mut s = vec![b0 as u8];
            match variant {
                0 => {}
                1 => s.extend_from_slice(&BODY[..size.saturating_sub(1)]),
                2 => s.extend_from_slice(&BODY[..size]),
                3 => {
                    s.extend_from_slice(&BODY[..size]);
                    s.extend_from_slice(&[0, 0]);
                }
                _ => {
                    s.extend_from_slice(&BODY[..size]);
                    s.push(0x55);
                }
            }
            let n = s.len();
            run(rep, &s, &[Piece { lo: 0, hi: n, m: M::Borrow, d: D::None }]);
            if n > 1 {
                run(rep, &s, &[Piece { lo: 0, hi: 1, m: M::Copy, d: D::None }, Piece { lo: 1, hi: n, m: M::Borrow, d: D::None }]);
            }
        }
        rep.outcome(hash_of(&("h1", b0 >= 253, b0 == 252)));
    }
    // empty first chunk, then all 65 536 second-header pairs
    let stride = ctx.tier.pick(1usize, 1);
    for lo in (0..=255usize).step_by(stride) {
        let u = *unit;
        *unit += 1;
        if !ctx.owns(u) {
            continue;
        }
        for hi in 0..=255usize {
            let size = lo + 253 * hi;
            let valid = lo < 253 && hi < 253 && size <= 64008;
            // For out-of-range headers the body is what a lenient reading of the header would expect,
            // so that a decoder that forgets a check goes on to *accept* the stream.
            let _ = valid;
            let body_len = size.min(64010);
            for variant in 0..5 {
                // (a) cut after the header, (b) body one short, (c) exact body with terminators
                let mut s = vec![0u8, lo as u8, hi as u8];
                match variant {
                    0 => {}
                    1 => s.extend_from_slice(&BODY[..body_len.saturating_sub(1)]),
                    2 => s.extend_from_slice(&BODY[..body_len]),
                    3 => {
                        s.extend_from_slice(&BODY[..body_len]);
                        s.extend_from_slice(&[0, 0]);
                    }
                    _ => {
                        s.extend_from_slice(&BODY[..body_len]);
                        s.extend_from_slice(&[252, 252]); // full-size header, then nothing
                    }
                }
                let n = s.len();
                run(rep, &s, &[Piece { lo: 0, hi: n, m: M::Borrow, d: D::None }]);
                // split between the two header bytes, and right after the header
                run(rep, &s, &[Piece { lo: 0, hi: 2, m: M::Borrow, d: D::None }, Piece { lo: 2, hi: n, m: M::Borrow, d: D::None }]);
                if n > 3 {
                    run(rep, &s, &[Piece { lo: 0, hi: 3, m: M::Copy, d: D::None }, Piece { lo: 3, hi: n, m: M::Borrow, d: D::None }]);
                }
            }
            rep.outcome(hash_of(&("h2", lo >= 253, hi >= 253, size > 64008, size == 64008)));
        }
    }
    decoder_error_paths(ctx, rep, unit);
    rep.note("decoder at production limits: all 256 first-header bytes x 5 body variants; empty first chunk + all 65 536 second-header byte pairs x 5 body/terminator variants x {whole, split inside the header, split after the header}".to_string());
}

/// A valid 3-chunk message truncated at every position within 4 bytes of each header, chunk
/// bodies containing FE FD, and out-of-radix header bytes after a long (borrowed) chunk.
pub fn decoder_error_paths(ctx: &Ctx, rep: &mut Report, unit: &mut usize) {
    let prop = ctx.prop.clone();
    let run = |rep: &mut Report, stream: &[u8], pieces: &[Piece]| {
        rep.evaluations += 1;
        rep.transitions += pieces.len() as u64 + 1;
        let mut obs = Obs::default();
        match dec_case(stream, pieces, None, false, &mut obs) {
            Ok(acc) => {
                if acc {
                    rep.count("decoder_accepts", 1);
                }
                rep.nontrivial += 1;
            }
            Err(e) => {
                let again = dec_case(stream, pieces, None, false, &mut Obs::default()).is_err();
                record(rep, &prop, &CaseId { side: "dec", limits: None, data: stream, pieces, prefill: false }, &e, again);
            }
        }
    };
    let u = *unit;
    *unit += 1;
    if ctx.owns(u) {
        let mut msg = vec![X; 252];
        msg.extend(std::iter::repeat(0x61).take(300));
        msg.extend_from_slice(&[0xFE, 0xFD]);
        msg.extend(std::iter::repeat(0x62).take(70));
        let enc = refcodec::encode(&msg, refcodec::PROD_FIRST, refcodec::PROD_LATER);
        for h in header_positions(&enc) {
            for d in 0..=4usize {
                for cut in [h + d, h.saturating_sub(d)] {
                    if cut <= enc.len() {
                        for m in METHODS {
                            run(rep, &enc[..cut], &[Piece { lo: 0, hi: cut, m, d: D::None }]);
                        }
                    }
                }
            }
        }
        // bodies that contain FE FD themselves: the decoder must not care
        let mut odd = vec![3u8, 0xFE, 0xFD, 0x41, 0, 0];
        run(rep, &odd.clone(), &[Piece { lo: 0, hi: odd.len(), m: M::Borrow, d: D::None }]);
        odd.push(0xFE);
        run(rep, &odd.clone(), &[Piece { lo: 0, hi: odd.len(), m: M::Copy, d: D::None }]);
        // long (borrowed) chunk followed by an out-of-radix header byte, every method, whole and split
        for k in [70usize, 252] {
            for bad in [0xFDu8, 0xFE, 0xFF] {
                let mut s = vec![k as u8];
                s.extend(std::iter::repeat(X).take(k));
                s.push(bad);
                s.push(0);
                s.extend(std::iter::repeat(X).take(5));
                let n = s.len();
                for m in METHODS {
                    run(rep, &s, &[Piece { lo: 0, hi: n, m, d: D::None }]);
                    run(rep, &s, &[Piece { lo: 0, hi: k + 1, m, d: D::None }, Piece { lo: k + 1, hi: n, m, d: D::None }]);
                    run(rep, &s, &[Piece { lo: 0, hi: k + 2, m, d: D::Consume1 }, Piece { lo: k + 2, hi: n, m, d: D::None }]);
                }
            }
        }
    }
    rep.note("decoder error paths at production limits: a 3-chunk message truncated at every position within 4 bytes of each header x 4 methods; chunk bodies containing FE FD; long borrowed chunk followed by each out-of-radix header byte x 4 methods x 3 segmentations (with a post-error arena flush and liveness check)".to_string());
}

/// The length bound "over all lengths": EVERY input length from 0 to two (quick) / four (thorough)
/// later-chunk limits plus a margin, for two stuff-free fillings (a plain byte, and FE - the byte the
/// encoder holds back), encoded by one borrowing call.  Only the output LENGTH is looked at (no
/// copy is made), against the statement's bound and against the exact length the format defines
/// (one header byte, then two per later chunk, the message ending on a short chunk).
pub fn length_sweep(ctx: &Ctx, rep: &mut Report, unit: &mut usize) {
    static FILL: std::sync::OnceLock<[Vec<u8>; 2]> = std::sync::OnceLock::new();
    let max_len = ctx.tier.pick(2usize, 4) * 64008 + 1000;
    let fills = FILL.get_or_init(|| [vec![0x41u8; 4 * 64008 + 1000], vec![0xFEu8; 4 * 64008 + 1000]]);
    let mut lengths = 0u64;
    for (fi, fill) in fills.iter().enumerate() {
        // blocks of 64 consecutive lengths per unit
        let mut lo = 0usize;
        while lo <= max_len {
            let hi = (lo + 64).min(max_len + 1);
            let u = *unit;
            *unit += 1;
            if ctx.owns(u) {
                for len in lo..hi {
                    lengths += 1;
                    rep.evaluations += 1;
                    rep.transitions += 2;
                    let input: &'static [u8] = unsafe { std::mem::transmute::<&[u8], &'static [u8]>(&fill[..len]) };
                    let got = catch(|| {
                        let mut enc = hcobs::Encoder::new();
                        enc.encode(input);
                        enc.finish().total_size()
                    });
                    let bound = len + 1 + 2 * len.div_ceil(64008);
                    let exact = if len < 252 { len + 1 } else { len + 1 + 2 * (1 + (len - 252) / 64008) };
                    let err = match got {
                        Err(p) => Some(format!("panic: {}", p)),
                        Ok(n) if n > bound => Some(format!("[shape] [canon] a {}-byte input of {:02X} bytes encodes to {} bytes, above the bound len + 1 + 2*ceil(len/64008) = {}", len, fill[0], n, bound)),
                        Ok(n) if n != exact => Some(format!("[canon] a {}-byte input of {:02X} bytes encodes to {} bytes; the format defines {} (one header byte, then two per 64008-byte chunk after the first 252 bytes)", len, fill[0], n, exact)),
                        Ok(_) => None,
                    };
                    if let Some(e) = err {
                        if !relevant(&e) {
                            rep.count("cases_failing_only_a_sibling_oracle", 1);
                            continue;
                        }
                        let pieces = [Piece { lo: 0, hi: len, m: M::Borrow, d: D::None }];
                        let id = CaseId { side: "enc", limits: None, data: &fill[..len], pieces: &pieces, prefill: false };
                        let r = id.render();
                        rep.violation(Violation { key: format!("{}:len:{}:{}", ctx.prop, fi, len), summary: format!("hcobs [{}]: {}", r, e), replay_text: format!("case: {}\nobserved: {}\n", r, e) });
                        // one report per filling is enough
                        break;
                    }
                }
            }
            lo = hi;
        }
    }
    owning_iovec::verif::drain_quarantine();
    rep.count("length_sweep_lengths", lengths);
    rep.note(format!("length sweep: every input length 0..={} of 41-bytes and of FE-bytes through one borrowing encode call: output length within len + 1 + 2*ceil(len/64008) and equal to the length the format defines", max_len));
}

/// Many pieces: inputs fed in 1100 / 1500 pieces (so that the output, left undrained, spans well
/// over a thousand slices: limits such as IOV_MAX = 1024 live there), borrowed or alternately
/// borrowed and copied, with a stuff sequence straddling every seventh piece boundary; then the
/// canonical stream fed back to the decoder in as many pieces.
pub fn many_pieces(ctx: &Ctx, rep: &mut Report, unit: &mut usize) {
    let prop = ctx.prop.clone();
    let mut cases = 0u64;
    for (count, size) in [(1100usize, 300usize), (1500, 300), (1100, 70), (2100, 1)] {
        for mix in [0usize, 1] {
            let u = *unit;
            *unit += 1;
            if !ctx.owns(u) {
                continue;
            }
            let mut input: Vec<u8> = Vec::with_capacity(count * size);
            let mut pieces: Vec<Piece> = Vec::with_capacity(count);
            for i in 0..count {
                let lo = input.len();
                for j in 0..size {
                    input.push(0x30 + ((i + j) % 64) as u8);
                }
                if size >= 2 && i % 7 == 3 {
                    let n = input.len();
                    input[n - 1] = 0xFE;
                }
                if size >= 2 && i % 7 == 4 {
                    input[lo] = 0xFD;
                }
                let m = if mix == 1 && i % 2 == 1 { M::Copy } else { M::Borrow };
                pieces.push(Piece { lo, hi: input.len(), m, d: D::None });
            }
            cases += 1;
            rep.evaluations += 1;
            rep.transitions += count as u64;
            let mut obs = Obs::default();
            if let Err(e) = enc_case(&input, &pieces, None, false, &mut obs) {
                let again = enc_case(&input, &pieces, None, false, &mut Obs::default());
                record(rep, &prop, &CaseId { side: "enc", limits: None, data: &input, pieces: &pieces, prefill: false }, &e, again.as_ref().err() == Some(&e));
                continue;
            }
            // decoder: the canonical stream in pieces of `size` bytes (at least as many pieces)
            let stream = stream_for(&input, None);
            let step = size.max(1);
            let mut dp: Vec<Piece> = Vec::new();
            let mut at = 0usize;
            let mut i = 0usize;
            while at < stream.len() {
                let hi = (at + step).min(stream.len());
                dp.push(Piece { lo: at, hi, m: if mix == 1 && i % 2 == 1 { M::Copy } else { M::Borrow }, d: D::None });
                at = hi;
                i += 1;
            }
            rep.evaluations += 1;
            rep.transitions += dp.len() as u64;
            if let Err(e) = dec_case_expect(&stream, &dp, None, false, &mut obs, Some(&input)) {
                let again = dec_case_expect(&stream, &dp, None, false, &mut Obs::default(), Some(&input));
                record(rep, &prop, &CaseId { side: "dec", limits: None, data: &stream, pieces: &dp, prefill: false }, &e, again.as_ref().err() == Some(&e));
            }
        }
    }
    rep.count("many_piece_cases", cases);
    rep.note("many pieces: inputs of 1100 x 300, 1500 x 300, 1100 x 70 and 2100 x 1 bytes fed piece by piece (all borrowed, or alternately borrowed and copied), a stuff sequence straddling every seventh piece boundary, nothing drained before finish (output of well over 1024 slices); the canonical stream back through the decoder in as many pieces".to_string());
}

/// Chunk counts around powers of two: (FE FD)^n closes n chunks (plus the last one), for n around
/// 2^8 and 2^16 - counters of chunks, of headers or of placeholders narrower than usize live there.
pub fn dense_chunks(ctx: &Ctx, rep: &mut Report, unit: &mut usize) {
    let prop = ctx.prop.clone();
    let mut cases = 0u64;
    for n in [255usize, 256, 257, 65_535, 65_536, 65_537] {
        for (mi, piece_len) in [(0usize, usize::MAX), (1, 4096), (2, 3)] {
            if piece_len == 3 && n > 1000 {
                continue;
            }
            let u = *unit;
            *unit += 1;
            if !ctx.owns(u) {
                continue;
            }
            let mut input: Vec<u8> = Vec::with_capacity(2 * n + 1);
            for _ in 0..n {
                input.extend_from_slice(&[0xFE, 0xFD]);
            }
            input.push(0x41);
            let mut pieces: Vec<Piece> = Vec::new();
            let mut at = 0usize;
            while at < input.len() {
                let hi = at.saturating_add(piece_len).min(input.len());
                // drain everything after each call in the multi-call forms (the consumer keeps up)
                pieces.push(Piece { lo: at, hi, m: if mi == 0 { M::Borrow } else { M::Copy }, d: if mi == 0 { D::None } else { D::ConsumeAll } });
                at = hi;
            }
            cases += 1;
            rep.evaluations += 1;
            rep.transitions += pieces.len() as u64;
            let mut obs = Obs::default();
            if let Err(e) = enc_case(&input, &pieces, None, false, &mut obs) {
                let again = enc_case(&input, &pieces, None, false, &mut Obs::default());
                record(rep, &prop, &CaseId { side: "enc", limits: None, data: &input, pieces: &pieces, prefill: false }, &e, again.as_ref().err() == Some(&e));
                continue;
            }
            let stream = stream_for(&input, None);
            let dp = [Piece { lo: 0, hi: stream.len(), m: M::Borrow, d: D::None }];
            if let Err(e) = dec_case_expect(&stream, &dp, None, false, &mut obs, Some(&input)) {
                let again = dec_case_expect(&stream, &dp, None, false, &mut Obs::default(), Some(&input));
                record(rep, &prop, &CaseId { side: "dec", limits: None, data: &stream, pieces: &dp, prefill: false }, &e, again.as_ref().err() == Some(&e));
            }
        }
    }
    rep.count("dense_chunk_cases", cases);
    rep.note("dense chunks: (FE FD)^n . 41 for n = 255, 256, 257, 65 535, 65 536, 65 537 (that many chunks closed by one encoder), in one borrowed call, in copied 4096-byte calls drained after each, and (small n) in 3-byte calls; the canonical stream decoded back".to_string());
}
