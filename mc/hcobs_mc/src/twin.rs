//! Two codecs of the same kind alive at once and fed alternately (x1 -> A, y1 -> B, x2 -> A, y2 -> B,
//! finish in either order): what one instance is doing must not show in the other's output.  State
//! kept outside the objects - a static or thread-local scratch buffer, cache or counter - shows
//! here and nowhere else.  The same for two decoders fed the two canonical streams.
use crate::codec::*;
use mc_core::refcodec;
use mc_core::*;
use owning_iovec::OwningIovec;

fn x_inputs(limits: Limits, quick: bool) -> Vec<Vec<u8>> {
    let mut v: Vec<Vec<u8>> = Vec::new();
    match limits {
        Some(_) => {
            // every string over {FE, FD, 00} up to length 4 (quick) / 5
            let alpha = [0xFEu8, 0xFD, 0x00];
            let max = if quick { 4 } else { 5 };
            for len in 0..=max {
                let total = alpha.len().pow(len as u32);
                for c in 0..total {
                    let mut x = c;
                    let mut s = Vec::with_capacity(len);
                    for _ in 0..len {
                        s.push(alpha[x % 3]);
                        x /= 3;
                    }
                    v.push(s);
                }
            }
        }
        None => {
            // production limits: a held-back FE / a stuff sequence / the chunk limit at the piece boundary
            for k in [0usize, 1, 250, 251, 252, 253] {
                for mid in [&[0xFEu8][..], &[0xFE, 0xFD], &[0xFD], &[]] {
                    for tail in [&[][..], &[0xFDu8], &[0xFE, 0xFD, 0x41]] {
                        let mut s = vec![0x41u8; k];
                        s.extend_from_slice(mid);
                        s.extend_from_slice(tail);
                        v.push(s);
                    }
                }
            }
        }
    }
    v
}

fn y_inputs(limits: Limits) -> Vec<Vec<u8>> {
    let mut v: Vec<Vec<u8>> = vec![vec![0xFD, 0x42, 0xFE], vec![0xFE, 0xFD, 0xFE, 0xFD], vec![0x42; 7], vec![0xFE]];
    if limits.is_none() {
        let mut s = vec![0x42u8; 251];
        s.extend_from_slice(&[0xFE, 0xFD, 0x42]);
        v.push(s);
        v.push(vec![0x42u8; 300]);
    }
    v
}

/// Feeds (x split at cx) to encoder A and (y split at cy) to encoder B alternately.
fn enc_twin(x: &[u8], cx: usize, y: &[u8], cy: usize, ma: [M; 2], mb: [M; 2], limits: Limits, b_finishes_first: bool) -> Result<(Vec<u8>, Vec<u8>), String> {
    let mut a = Enc::new(limits, OwningIovec::new());
    let mut b = Enc::new(limits, OwningIovec::new());
    a.feed(&x[..cx], ma[0])?;
    b.feed(&y[..cy], mb[0])?;
    a.feed(&x[cx..], ma[1])?;
    b.feed(&y[cy..], mb[1])?;
    let (oa, ob) = if b_finishes_first {
        let ob = b.finish();
        let oa = a.finish();
        (oa, ob)
    } else {
        let oa = a.finish();
        let ob = b.finish();
        (oa, ob)
    };
    let fa = oa.flatten().map_err(|_| "encoder A: finish() left a placeholder pending".to_string())?;
    let fb = ob.flatten().map_err(|_| "encoder B: finish() left a placeholder pending".to_string())?;
    Ok((fa, fb))
}

fn dec_twin(ea: &[u8], ca: usize, eb: &[u8], cb: usize, ma: [M; 2], mb: [M; 2], limits: Limits) -> Result<(Option<Vec<u8>>, Option<Vec<u8>>), String> {
    let mut a = Dec::new(limits, OwningIovec::new());
    let mut b = Dec::new(limits, OwningIovec::new());
    let mut ok_a = a.feed(&ea[..ca], ma[0])?;
    let mut ok_b = b.feed(&eb[..cb], mb[0])?;
    if ok_a {
        ok_a = a.feed(&ea[ca..], ma[1])?;
    }
    if ok_b {
        ok_b = b.feed(&eb[cb..], mb[1])?;
    }
    let fa = if ok_a { a.finish().and_then(|o| o.flatten().ok()) } else { None };
    let fb = if ok_b { b.finish().and_then(|o| o.flatten().ok()) } else { None };
    Ok((fa, fb))
}

/// One codec whose calls come from different threads: the first piece is fed here, the second on a
/// freshly spawned helper thread, which (or this thread) also finishes it.  Encoder and Decoder are
/// Send: a pipeline may hand them from stage to stage.
fn threaded_case(x: &[u8], cx: usize, m: [M; 2], limits: Limits, finish_on_helper: bool) -> Result<(), String> {
    let (first, later) = limits_of(limits);
    let want = refcodec::encode(x, first, later);
    let mut enc = Enc::new(limits, OwningIovec::new());
    enc.feed(&x[..cx], m[0])?;
    let out: Vec<u8> = std::thread::scope(|s| -> Result<Vec<u8>, String> {
        let h = s.spawn(move || -> Result<(Option<Vec<u8>>, Option<Enc>), String> {
            let mut enc = enc;
            enc.feed(&x[cx..], m[1])?;
            if finish_on_helper {
                Ok((Some(enc.finish().flatten().map_err(|_| "finish() left a placeholder pending".to_string())?), None))
            } else {
                Ok((None, Some(enc)))
            }
        });
        match h.join().map_err(|_| "panic on the helper thread".to_string())?? {
            (Some(o), _) => Ok(o),
            (None, Some(enc)) => enc.finish().flatten().map_err(|_| "finish() left a placeholder pending".to_string()),
            _ => Err("harness: no output".to_string()),
        }
    })?;
    if out != want {
        return Err(format!("[canon] [shape] [roundtrip] an encoder fed from two threads in turn produced [{}]; the canonical encoding is [{}]", hex(&out), hex(&want)));
    }
    let cd = cx.min(want.len());
    let mut dec = Dec::new(limits, OwningIovec::new());
    let ok = dec.feed(&want[..cd], m[0])?;
    let want_ref = &want;
    let back: Option<Vec<u8>> = std::thread::scope(|s| -> Result<Option<Vec<u8>>, String> {
        let h = s.spawn(move || -> Result<Option<Vec<u8>>, String> {
            let mut dec = dec;
            if !ok || !dec.feed(&want_ref[cd..], m[1])? {
                return Ok(None);
            }
            Ok(dec.finish().and_then(|o| o.flatten().ok()))
        });
        h.join().map_err(|_| "panic on the helper thread".to_string())?
    })?;
    if back.as_deref() != Some(x) {
        return Err(format!("[canon] [roundtrip] a decoder fed from two threads in turn returned {}; the stream decodes to [{}]", match &back { Some(g) => format!("[{}]", hex(g)), None => "a rejection".to_string() }, hex(x)));
    }
    Ok(())
}

struct PanickingReader;
impl std::io::Read for PanickingReader {
    fn read(&mut self, _dst: &mut [u8]) -> std::io::Result<usize> {
        panic!("the caller's reader panicked");
    }
}

/// Caller-supplied code that fails by unwinding: a reader that panics inside encode_read /
/// decode_read (the panic is caught by the caller), after which the same codec is fed the data
/// through a well-behaved reader.  The interrupted call delivered nothing, so the result must be
/// that of the data alone.  Production codecs only (the limit-parameterised hook has no *_read).
fn panic_retry_case(x: &[u8], cx: usize) -> Result<(), String> {
    let max = std::num::NonZeroUsize::MAX;
    let want = refcodec::encode(x, refcodec::PROD_FIRST, refcodec::PROD_LATER);
    let mut enc = hcobs::Encoder::new();
    enc.encode_copy(&x[..cx]);
    let r = std::panic::catch_unwind(std::panic::AssertUnwindSafe(|| enc.encode_read(PanickingReader, (x.len() - cx).max(1), max)));
    if r.is_ok() {
        return Err("harness: the panicking reader was not called".to_string());
    }
    let rest = &x[cx..];
    let n = enc.encode_read(FullReader(rest), rest.len(), max).map_err(|e| format!("encode_read after a caught reader panic failed: {}", e))?;
    if n != rest.len() {
        return Err(format!("[canon] [shape] [roundtrip] [prefix] encode_read after a caught reader panic read {} of {} bytes", n, rest.len()));
    }
    let out = enc.finish().flatten().map_err(|_| "[prefix] [canon] [shape] [roundtrip] after a reader panicked inside encode_read (and was caught) finish() leaves a header placeholder pending: output that never becomes consumable".to_string())?;
    if out != want {
        return Err(format!("[canon] [shape] [roundtrip] [prefix] after a reader panicked inside encode_read (and was caught) the encoder produced [{}]; the canonical encoding of the data is [{}]", hex(&out), hex(&want)));
    }
    let cd = cx.min(want.len());
    let mut dec = hcobs::Decoder::new();
    dec.decode_copy(&want[..cd]).map_err(|e| format!("decode failed: {}", e))?;
    let r = std::panic::catch_unwind(std::panic::AssertUnwindSafe(|| dec.decode_read(PanickingReader, (want.len() - cd).max(1), max)));
    if r.is_ok() {
        return Err("harness: the panicking reader was not called".to_string());
    }
    let rest = &want[cd..];
    let n = dec.decode_read(FullReader(rest), rest.len(), max).map_err(|e| format!("[canon] [roundtrip] decode_read after a caught reader panic failed: {}", e))?;
    if n != rest.len() {
        return Err(format!("[canon] [roundtrip] decode_read after a caught reader panic read {} of {} bytes", n, rest.len()));
    }
    let back = dec.finish().ok().and_then(|o| o.flatten().ok());
    if back.as_deref() != Some(x) {
        return Err(format!("[canon] [roundtrip] [prefix] after a reader panicked inside decode_read (and was caught) the decoder returned {}; the stream decodes to [{}]", match &back { Some(g) => format!("[{}]", hex(g)), None => "a rejection".to_string() }, hex(x)));
    }
    Ok(())
}

fn mname(m: [M; 2]) -> String {
    format!("{:?}+{:?}", m[0], m[1])
}

fn parse_m(s: &str) -> Option<[M; 2]> {
    let (a, b) = s.split_once('+')?;
    let f = |t: &str| METHODS.iter().copied().find(|m| format!("{:?}", m) == t);
    Some([f(a)?, f(b)?])
}

pub struct TwinCase {
    pub limits: Limits,
    pub x: Vec<u8>,
    pub cx: usize,
    pub y: Vec<u8>,
    pub cy: usize,
    pub ma: [M; 2],
    pub mb: [M; 2],
    pub b_first: bool,
}

impl TwinCase {
    pub fn render(&self) -> String {
        format!(
            "limits={} x=[{}] cx={} y=[{}] cy={} ma={} mb={} b_first={}",
            match self.limits {
                None => "prod".to_string(),
                Some((a, b)) => format!("{},{}", a, b),
            },
            crate::tiny::hex_full(&self.x),
            self.cx,
            crate::tiny::hex_full(&self.y),
            self.cy,
            mname(self.ma),
            mname(self.mb),
            self.b_first
        )
    }

    /// Err = violation description.
    pub fn run(&self) -> Result<(), String> {
        let (first, later) = limits_of(self.limits);
        let body = || -> Result<(), String> {
            let (oa, ob) = enc_twin(&self.x, self.cx, &self.y, self.cy, self.ma, self.mb, self.limits, self.b_first)?;
            let (wa, wb) = (refcodec::encode(&self.x, first, later), refcodec::encode(&self.y, first, later));
            for (who, got, want) in [("A", &oa, &wa), ("B", &ob, &wb)] {
                if got != want {
                    return Err(format!(
                        "[canon] [shape] [roundtrip] two encoders fed alternately: encoder {} produced [{}] but its own input encodes to [{}] (its output depends on what the other encoder was doing)",
                        who,
                        hex(got),
                        hex(want)
                    ));
                }
            }
            // and the two canonical streams through two decoders fed alternately
            let (ca, cb) = (self.cx.min(wa.len()), (self.cy + 1).min(wb.len()));
            let (da, db) = dec_twin(&wa, ca, &wb, cb, self.ma, self.mb, self.limits)?;
            for (who, got, want) in [("A", &da, &self.x), ("B", &db, &self.y)] {
                if got.as_deref() != Some(want.as_slice()) {
                    return Err(format!(
                        "[canon] [roundtrip] two decoders fed alternately: decoder {} returned {} but its own stream decodes to [{}]",
                        who,
                        match got {
                            Some(g) => format!("[{}]", hex(g)),
                            None => "a rejection".to_string(),
                        },
                        hex(want)
                    ));
                }
            }
            Ok(())
        };
        let r = match catch(body) {
            Ok(r) => r,
            Err(p) => Err(format!("panic: {}", p)),
        };
        owning_iovec::verif::drain_quarantine();
        r
    }
}

pub fn parse(text: &str) -> Option<TwinCase> {
    let get = |k: &str| text.split_whitespace().find_map(|t| t.strip_prefix(&format!("{}=", k)).map(|s| s.to_string()));
    // hex fields contain spaces: take them between brackets
    let bracket = |k: &str| -> Option<String> {
        let at = text.find(&format!("{}=[", k))? + k.len() + 2;
        let end = text[at..].find(']')? + at;
        Some(text[at..end].to_string())
    };
    let limits = match get("limits")?.as_str() {
        "prod" => None,
        other => {
            let (a, b) = other.split_once(',')?;
            Some((a.parse().ok()?, b.parse().ok()?))
        }
    };
    Some(TwinCase {
        limits,
        x: unhex(&bracket("x")?)?,
        cx: get("cx")?.parse().ok()?,
        y: unhex(&bracket("y")?)?,
        cy: get("cy")?.parse().ok()?,
        ma: parse_m(&get("ma")?)?,
        mb: parse_m(&get("mb")?)?,
        b_first: get("b_first")? == "true",
    })
}

pub fn run(ctx: &Ctx, rep: &mut Report, unit: &mut usize) {
    let quick = ctx.tier == Tier::Quick;
    let mut cases = 0u64;
    let pairs: [[M; 2]; 6] = [[M::Copy, M::Copy], [M::Borrow, M::Copy], [M::Copy, M::Borrow], [M::Anchored, M::Copy], [M::Read, M::Read], [M::Copy, M::Anchored]];
    for limits in [Some((2usize, 3usize)), Some((3, 5)), None] {
        for x in x_inputs(limits, quick) {
            let u = *unit;
            *unit += 1;
            if !ctx.owns(u) {
                continue;
            }
            // a reader that panics once inside the codec's *_read call, then a retry
            if limits.is_none() {
                for cx in (0..=x.len().min(4)).chain([x.len().saturating_sub(1), x.len()]) {
                    cases += 1;
                    rep.evaluations += 1;
                    rep.transitions += 6;
                    let r = match catch(|| panic_retry_case(&x, cx.min(x.len()))) {
                        Ok(r) => r,
                        Err(p) => Err(format!("panic: {}", p)),
                    };
                    owning_iovec::verif::drain_quarantine();
                    if let Err(e) = r {
                        if !relevant(&e) {
                            rep.count("cases_failing_only_a_sibling_oracle", 1);
                            continue;
                        }
                        let case = TwinCase { limits, x: x.clone(), cx: cx.min(x.len()), y: vec![], cy: 0, ma: [M::Read, M::Read], mb: [M::Copy, M::Copy], b_first: false };
                        let r = format!("panicretry {}", case.render());
                        rep.violation(Violation { key: format!("{}:panicretry:{}", ctx.prop, r.replace(' ', ";")), summary: format!("hcobs, a reader that panics once inside *_read, then a retry [{}]: {}", r, e), replay_text: format!("twin: {}\nobserved: {}\n", r, e) });
                    }
                }
            }
            // the same input through ONE codec used from two threads in turn
            for cx in 0..=x.len().min(6) {
                for m in pairs.iter() {
                    for on_helper in [false, true] {
                        cases += 1;
                        rep.evaluations += 1;
                        rep.transitions += 4;
                        let r = match catch(|| threaded_case(&x, cx, *m, limits, on_helper)) {
                            Ok(r) => r,
                            Err(p) => Err(format!("panic: {}", p)),
                        };
                        owning_iovec::verif::drain_quarantine();
                        if let Err(e) = r {
                            if !relevant(&e) {
                                rep.count("cases_failing_only_a_sibling_oracle", 1);
                                continue;
                            }
                            let case = TwinCase { limits, x: x.clone(), cx, y: vec![], cy: 0, ma: *m, mb: [M::Copy, M::Copy], b_first: on_helper };
                            let r = format!("threaded {}", case.render());
                            rep.violation(Violation { key: format!("{}:threaded:{}", ctx.prop, r.replace(' ', ";")), summary: format!("hcobs, one codec used from two threads in turn [{}]: {}", r, e), replay_text: format!("twin: {}\nobserved: {}\n", r, e) });
                        }
                    }
                }
            }
            let cuts: Vec<usize> = if x.len() <= 6 { (0..=x.len()).collect() } else { vec![x.len() - 3, x.len() - 2, x.len() - 1, 250.min(x.len()), 252.min(x.len())] };
            for y in y_inputs(limits) {
                for &cx in &cuts {
                    for cy in [1usize.min(y.len()), y.len() / 2 + 1] {
                        for (pi, ma) in pairs.iter().enumerate() {
                            let mb = pairs[(pi + 1) % pairs.len()];
                            for b_first in [false, true] {
                                let case = TwinCase { limits, x: x.clone(), cx, y: y.clone(), cy: cy.min(y.len()), ma: *ma, mb, b_first };
                                cases += 1;
                                rep.evaluations += 1;
                                rep.transitions += 8;
                                if let Err(e) = case.run() {
                                    if !relevant(&e) {
                                        rep.count("cases_failing_only_a_sibling_oracle", 1);
                                        continue;
                                    }
                                    if case.run().err().as_ref() != Some(&e) {
                                        machinery_failure(&format!("twin violation did not reproduce: {} / {}", case.render(), e));
                                    }
                                    let r = case.render();
                                    rep.violation(Violation { key: format!("{}:twin:{}", ctx.prop, r.replace(' ', ";")), summary: format!("hcobs, two codecs alive at once [{}]: {}", r, e), replay_text: format!("twin: {}\nobserved: {}\n", r, e) });
                                }
                            }
                        }
                    }
                }
            }
        }
    }
    rep.count("twin_cases", cases);
    rep.note("twin instances: two Encoders (then two Decoders on the two canonical streams) alive at once and fed alternately, each input in two pieces: x over every string on {FE, FD, 00} up to length 4 / 5 at limits (2,3) and (3,5) and 72 production-limit shapes (x^k . mid . tail, k around 0 and 252), every cut of x, y from a fixed list, 6 method pairs, either finishing order; each output must be the canonical encoding / decoding of its own input; and every x through ONE encoder / decoder whose two calls come from two threads in turn (fed here, then fed and possibly finished on a freshly spawned helper thread); and (production codecs) a reader that panics once inside encode_read / decode_read, caught by the caller, followed by a retry with a well-behaved reader".to_string());
}

pub fn replay(text: &str) -> Result<String, String> {
    owning_iovec::verif::set_quarantine(true);
    let Some(case) = field(text, "twin").and_then(parse) else {
        machinery_failure("cannot parse twin case");
    };
    if field(text, "twin").is_some_and(|t| t.starts_with("panicretry ")) {
        let r = match catch(|| panic_retry_case(&case.x, case.cx)) {
            Ok(r) => r,
            Err(p) => Err(format!("panic: {}", p)),
        };
        return match r {
            Err(e) if !relevant(&e) => Err(format!("only a sibling property's oracle fails: {}", e)),
            Err(e) => Ok(e),
            Ok(()) => Err("the codec produces the canonical output after a caught reader panic".into()),
        };
    }
    if field(text, "twin").is_some_and(|t| t.starts_with("threaded ")) {
        let r = match catch(|| threaded_case(&case.x, case.cx, case.ma, case.limits, case.b_first)) {
            Ok(r) => r,
            Err(p) => Err(format!("panic: {}", p)),
        };
        return match r {
            Err(e) if !relevant(&e) => Err(format!("only a sibling property's oracle fails: {}", e)),
            Err(e) => Ok(e),
            Ok(()) => Err("the codec produces the canonical output whichever thread calls it".into()),
        };
    }
    match case.run() {
        Err(e) if !relevant(&e) => Err(format!("only a sibling property's oracle fails: {}", e)),
        Err(e) => Ok(e),
        Ok(()) => Err("both codecs produce the canonical output of their own input".into()),
    }
}
