//! vtime_mc: bounded-exhaustive exploration of vouched_time (C14 window; C19 NFS histories; C18 clause ii).
mod window;

use mc_core::*;

fn level(prop: &str) -> &'static str {
    match prop {
        "C14" => "exploration",
        _ => "model_checking",
    }
}

fn rule(ctx: &Ctx) -> String {
    match ctx.prop.as_str() {
        "C14" => "every (local, base, voucher) triple in the dense blocks described in notes is given to the real VouchedTime::new/check/get_local_time and compared with the window rule evaluated in i128; non-trivial = triples the rule accepts (each triple is distinct by construction).".into(),
        _ => String::new(),
    }
}

fn run(ctx: &Ctx) -> Report {
    match ctx.prop.as_str() {
        "C14" => window::run(ctx),
        other => machinery_failure(&format!("vtime_mc does not serve {}", other)),
    }
}

fn replay(ctx: &Ctx, text: &str) -> Result<String, String> {
    match ctx.prop.as_str() {
        "C14" => window::replay(text),
        other => machinery_failure(&format!("vtime_mc does not serve {}", other)),
    }
}

fn assumptions(ctx: &Ctx) -> Vec<String> {
    match ctx.prop.as_str() {
        "C14" => vec![
            "local times are enumerated at millisecond granularity (the code truncates sub-millisecond parts toward zero)".into(),
            "the accept predicate is piecewise linear in (local - base) with breakpoints only at the enumerated edges and wrap-around boundaries".into(),
        ],
        _ => vec![],
    }
}

fn main() {
    main_entry(Engine { name: "vtime_mc", level, rule, run, replay, assumptions });
}
