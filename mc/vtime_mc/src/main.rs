//! vtime_mc: bounded-exhaustive exploration of vouched_time (C14 window; C19 NFS histories; C18 clause ii).
mod nfs;
mod window;

use mc_core::*;

fn level(prop: &str) -> &'static str {
    match prop {
        "C14" => "exploration",
        _ => "model_checking",
    }
}

fn rule(ctx: &Ctx) -> String {
    match ctx.prop.as_str() {
        "C14" => "every (local, base, voucher) triple in the dense blocks described in notes is given to the real VouchedTime::new/check/get_local_time and compared with the window rule evaluated in i128; non-trivial = triples the rule accepts (each triple is distinct by construction).".into(),
        _ => "every history over the op alphabet in notes to the depth bound runs in a fresh child process against real files on two real devices; after every call the child reads get_base_time_unlocked and stats its files: the base time never decreases, changes only to the change-time of a file on a trusted device (or of the path being registered), observations of files on other devices report nothing, every returned pair passes VouchedTime's check. states = distinct (history, device role) pairs; non-trivial = histories in which the base time advanced.".into(),
    }
}

fn run(ctx: &Ctx) -> Report {
    match ctx.prop.as_str() {
        "C14" => window::run(ctx),
        "C19" => nfs::run(ctx),
        other => machinery_failure(&format!("vtime_mc does not serve {}", other)),
    }
}

fn replay(ctx: &Ctx, text: &str) -> Result<String, String> {
    match ctx.prop.as_str() {
        "C14" => window::replay(text),
        "C19" => nfs::replay(text),
        other => machinery_failure(&format!("vtime_mc does not serve {}", other)),
    }
}

fn assumptions(ctx: &Ctx) -> Vec<String> {
    match ctx.prop.as_str() {
        "C14" => vec![
            "local times are enumerated at millisecond granularity (the code truncates sub-millisecond parts toward zero)".into(),
            "the accept predicate is piecewise linear in (local - base) with breakpoints only at the enumerated edges and wrap-around boundaries".into(),
        ],
        _ => vec![
            "change-times come from the kernel clock of tmpfs (/dev/shm) and the root file system; NFS itself is not available".into(),
            "the oracle does not depend on which throttle branch (100 ms) was taken, so timing jitter cannot raise an alarm".into(),
            "concurrency inside nfs_voucher is out of scope (the statement is about histories)".into(),
        ],
    }
}

fn main() {
    let args: Vec<String> = std::env::args().collect();
    if args.len() >= 5 && args[1] == "--child" {
        nfs::child_main(&args[2..]);
    }
    main_entry(Engine { name: "vtime_mc", level, rule, run, replay, assumptions, decode_breadcrumb: None });
}
