//! C19 — the NFS base time only moves forward, and only on evidence from
//! trusted devices.  `nfs_voucher` keeps process-wide statics and a thread-local
//! throttle, so every history runs in a fresh child process (this same binary
//! with `--child`).
use mc_core::*;
use std::os::unix::fs::MetadataExt;
use std::path::Path;
use std::path::PathBuf;
use vouched_time::nfs_voucher;
use vouched_time::VouchedTime;

#[derive(Clone, Copy, Debug, PartialEq, Eq)]
pub enum Op {
    AddTrusted,
    ObserveTOld,
    ObserveTNew,
    ObserveUNew,
    MaybeObserveTNew,
    MaybeObserveUNew,
    Scan,
    GetNow,
    GetFresh,
    GetStale,
    GetUnlocked,
    Sleep,
    TouchTOld,
    /// harness side: the trusted path is replaced by a symlink to a file on the untrusted device
    RetargetTrustedPath,
    /// registers the other device as trusted as well
    AddTrustedOther,
    /// add_trusted_path on the other device for a file the process may write but does not own
    /// (called with the effective uid of `nobody`): open and stat succeed, the validating touch is
    /// refused, the call fails and must leave nothing behind
    AddOtherRefused,
    /// the thread also uses a private `AtomicBaseTime` of its own (a public type): it brings it to
    /// sequence number 2 (resp. 3) with far-future pairs and reads it.  Nothing this thread read from
    /// its private cell may show up as the module's base time, now or after later module calls.
    /// (What the private cell itself returns is not this property's business.)
    OtherCell1,
    OtherCell2,
    OtherCell3,
    /// registers the trusted path by a RELATIVE name, with the trusted directory as current directory
    AddTrustedRelative,
    /// the process changes its current directory to the other device's directory, where a (newer)
    /// file of the same relative name exists
    ChdirOther,
}
pub const OPS_ALL: [Op; 21] = [
    Op::AddTrusted,
    Op::ObserveTOld,
    Op::ObserveTNew,
    Op::ObserveUNew,
    Op::MaybeObserveTNew,
    Op::MaybeObserveUNew,
    Op::Scan,
    Op::GetNow,
    Op::GetFresh,
    Op::GetStale,
    Op::GetUnlocked,
    Op::Sleep,
    Op::TouchTOld,
    Op::RetargetTrustedPath,
    Op::AddTrustedOther,
    Op::AddOtherRefused,
    Op::OtherCell1,
    Op::OtherCell2,
    Op::OtherCell3,
    Op::AddTrustedRelative,
    Op::ChdirOther,
];
pub const OPS: [Op; 16] = [
    Op::AddTrusted,
    Op::ObserveTOld,
    Op::ObserveTNew,
    Op::ObserveUNew,
    Op::MaybeObserveTNew,
    Op::MaybeObserveUNew,
    Op::Scan,
    Op::GetNow,
    Op::GetFresh,
    Op::GetStale,
    Op::GetUnlocked,
    Op::Sleep,
    Op::TouchTOld,
    Op::RetargetTrustedPath,
    Op::AddTrustedOther,
    Op::AddOtherRefused,
];

pub fn render(h: &[Op]) -> String {
    h.iter().map(|o| format!("{:?}", o)).collect::<Vec<_>>().join(",")
}

pub fn parse(text: &str) -> Option<Vec<Op>> {
    let mut v = Vec::new();
    for tok in text.split(',') {
        if tok.trim().is_empty() {
            continue;
        }
        v.push(OPS_ALL.iter().copied().find(|o| format!("{:?}", o) == tok.trim())?);
    }
    Some(v)
}

fn ctime_ms(path: &Path) -> Option<u64> {
    let md = std::fs::metadata(path).ok()?;
    Some((md.ctime() as u64) * 1000 + (md.ctime_nsec() as u64) / 1_000_000)
}

fn dev_of(path: &Path) -> Option<u64> {
    std::fs::metadata(path).ok().map(|m| m.dev())
}

fn local_from_ms(ms: u64) -> Option<time::PrimitiveDateTime> {
    let odt = time::OffsetDateTime::from_unix_timestamp_nanos(ms as i128 * 1_000_000).ok()?;
    Some(time::PrimitiveDateTime::new(odt.date(), odt.time()))
}

/// The environment a child works in.
pub struct Env {
    pub trusted_dir: PathBuf,
    pub other_dir: PathBuf,
}

impl Env {
    fn p_t(&self) -> PathBuf {
        self.trusted_dir.join("trusted_path")
    }
    fn p_u(&self) -> PathBuf {
        self.other_dir.join("other_trusted_path")
    }
    fn t_old(&self) -> PathBuf {
        self.trusted_dir.join("t_old")
    }
    fn t_new(&self) -> PathBuf {
        self.trusted_dir.join("t_new")
    }
    fn u_new(&self) -> PathBuf {
        self.other_dir.join("u_new")
    }
    fn u_unowned(&self) -> PathBuf {
        self.other_dir.join("u_world_writable")
    }
}

/// Child: runs one history, checking after every call.  Returns Err(description) on a violation.
/// Prints coverage facts on stdout ("COV key").
pub fn child(env: &Env, history: &[Op]) -> Result<(), String> {
    let now = || time::OffsetDateTime::now_utc();
    let unlocked = || -> Result<u64, String> {
        let (b, v) = nfs_voucher::get_base_time_unlocked(now()).map_err(|e| format!("get_base_time_unlocked failed: {}", e))?;
        check_pair(b, v)?;
        Ok(b)
    };
    fn check_pair(b: u64, v: raffle::Voucher) -> Result<(), String> {
        let Some(local) = local_from_ms(b) else {
            return Err(format!("base time {} is not a representable time", b));
        };
        VouchedTime::check(local, b, v).map_err(|e| format!("pair (base {}) returned by the module fails VouchedTime's check: {}", b, e))
    }
    let mut trusted_devs: Vec<u64> = Vec::new();
    let trusted_dev = dev_of(&env.trusted_dir).ok_or("harness: no trusted dir")?;
    let other_dev = dev_of(&env.other_dir).ok_or("harness: no other dir")?;
    let mut base = unlocked()?;
    if base != 0 {
        return Err(format!("fresh process starts with base time {}", base));
    }
    let mut retargeted = false;
    for (i, op) in history.iter().enumerate() {
        let step = format!("step {} ({:?})", i + 1, op);
        let mut registering: Option<PathBuf> = None;
        let observe = |path: &Path, trusted_devs: &[u64]| -> Result<(), String> {
            let file = std::fs::File::open(path).map_err(|e| format!("harness: open {:?}: {}", path, e))?;
            let dev = file.metadata().map_err(|e| e.to_string())?.dev();
            let (_, pair) = nfs_voucher::observe_file_time(&file).map_err(|e| format!("observe_file_time failed: {}", e))?;
            match pair {
                None => {
                    if trusted_devs.contains(&dev) {
                        return Err("observe_file_time reported nothing for a file on a trusted device".into());
                    }
                    println!("COV observe-untrusted-none");
                }
                Some((b, v)) => {
                    if !trusted_devs.contains(&dev) {
                        return Err(format!("observe_file_time returned a pair (base {}) for a file on a device that is not trusted", b));
                    }
                    check_pair(b, v)?;
                    if Some(b) != ctime_ms(path) {
                        return Err(format!("observe_file_time returned base {} but the file's change-time is {:?}", b, ctime_ms(path)));
                    }
                    println!("COV observe-trusted-some");
                }
            }
            Ok(())
        };
        match op {
            Op::AddTrusted => {
                if retargeted {
                    // the path is now a symlink (living on the first device) to a file on the other
                    // device: the evidence comes from the file that is opened, so it is the OTHER
                    // device that becomes trusted, not the one the link sits on
                    registering = Some(env.p_t());
                    nfs_voucher::add_trusted_path(env.p_t()).map_err(|e| format!("{}: add_trusted_path (through a symlink) failed: {}", step, e))?;
                    if !trusted_devs.contains(&other_dev) {
                        trusted_devs.push(other_dev);
                    }
                    println!("COV registered-through-symlink");
                    // fall through to the checks after every call
                    std::thread::sleep(std::time::Duration::from_millis(12));
                    let after = unlocked().map_err(|e| format!("{}: {}", step, e))?;
                    if after < base {
                        return Err(format!("{}: the base time went backwards, from {} to {}", step, base, after));
                    }
                    if after != base && Some(after) != ctime_ms(&env.u_new()) {
                        return Err(format!("{}: the base time moved to {} which is not the change-time of the file the symlink resolves to ({:?})", step, after, ctime_ms(&env.u_new())));
                    }
                    base = after;
                    continue;
                }
                registering = Some(env.p_t());
                nfs_voucher::add_trusted_path(env.p_t()).map_err(|e| format!("{}: add_trusted_path failed: {}", step, e))?;
                if !trusted_devs.contains(&trusted_dev) {
                    trusted_devs.push(trusted_dev);
                }
            }
            Op::AddTrustedRelative => {
                std::env::set_current_dir(&env.trusted_dir).map_err(|e| format!("harness: chdir: {}", e))?;
                registering = Some(env.p_t());
                nfs_voucher::add_trusted_path(PathBuf::from("trusted_path")).map_err(|e| format!("{}: add_trusted_path(relative name) failed: {}", step, e))?;
                if !trusted_devs.contains(&trusted_dev) {
                    trusted_devs.push(trusted_dev);
                }
                println!("COV registered-relative");
            }
            Op::ChdirOther => {
                std::env::set_current_dir(&env.other_dir).map_err(|e| format!("harness: chdir: {}", e))?;
                println!("COV chdir-other");
            }
            Op::AddTrustedOther => {
                registering = Some(env.p_u());
                nfs_voucher::add_trusted_path(env.p_u()).map_err(|e| format!("{}: add_trusted_path failed: {}", step, e))?;
                if !trusted_devs.contains(&other_dev) {
                    trusted_devs.push(other_dev);
                }
            }
            Op::AddOtherRefused => {
                // SAFETY: plain libc calls; the child is single-threaded here
                if unsafe { libc::geteuid() } != 0 {
                    println!("COV refused-registration-skipped-not-root");
                    continue;
                }
                if unsafe { libc::seteuid(65534) } != 0 {
                    return Err("harness: seteuid(nobody) failed".into());
                }
                let r = nfs_voucher::add_trusted_path(env.u_unowned());
                if unsafe { libc::seteuid(0) } != 0 {
                    return Err("harness: seteuid(0) failed".into());
                }
                match r {
                    Ok(()) => {
                        // the platform let the touch through: a successful registration like any other
                        println!("COV refused-registration-succeeded");
                        registering = Some(env.u_unowned());
                        if !trusted_devs.contains(&other_dev) {
                            trusted_devs.push(other_dev);
                        }
                    }
                    Err(_) => println!("COV refused-registration-failed"),
                }
            }
            Op::ObserveTOld => observe(&env.t_old(), &trusted_devs).map_err(|e| format!("{}: {}", step, e))?,
            Op::ObserveTNew => observe(&env.t_new(), &trusted_devs).map_err(|e| format!("{}: {}", step, e))?,
            Op::ObserveUNew => observe(&env.u_new(), &trusted_devs).map_err(|e| format!("{}: {}", step, e))?,
            Op::MaybeObserveTNew => {
                let f = std::fs::File::open(env.t_new()).map_err(|e| e.to_string())?;
                nfs_voucher::maybe_observe_file_time(&f);
            }
            Op::MaybeObserveUNew => {
                let f = std::fs::File::open(env.u_new()).map_err(|e| e.to_string())?;
                nfs_voucher::maybe_observe_file_time(&f);
            }
            Op::Scan => {
                // may fail (no trusted path, or the path moved to another device): that is allowed
                match nfs_voucher::scan_base_time() {
                    Ok(()) => println!("COV scan-ok"),
                    Err(_) => println!("COV scan-err"),
                }
            }
            Op::GetNow | Op::GetFresh | Op::GetStale => {
                let when = match op {
                    Op::GetNow => now(),
                    Op::GetFresh => time::OffsetDateTime::from_unix_timestamp_nanos((base as i128 + 100) * 1_000_000).map_err(|e| e.to_string())?,
                    _ => time::OffsetDateTime::from_unix_timestamp_nanos((base as i128 + 10_000) * 1_000_000).map_err(|e| e.to_string())?,
                };
                match nfs_voucher::get_base_time(when) {
                    Ok((b, v)) => {
                        check_pair(b, v).map_err(|e| format!("{}: {}", step, e))?;
                        println!("COV get-ok");
                    }
                    Err(_) => println!("COV get-err"),
                }
            }
            Op::GetUnlocked => {
                let b = unlocked().map_err(|e| format!("{}: {}", step, e))?;
                if b != base {
                    return Err(format!("{}: get_base_time_unlocked returned {} but the base time is {}", step, b, base));
                }
            }
            Op::Sleep => std::thread::sleep(std::time::Duration::from_millis(120)),
            Op::TouchTOld => {
                let f = std::fs::File::options().write(true).open(env.t_old()).map_err(|e| e.to_string())?;
                f.set_times(std::fs::FileTimes::new().set_accessed(std::time::SystemTime::now())).map_err(|e| e.to_string())?;
            }
            Op::OtherCell1 | Op::OtherCell2 | Op::OtherCell3 => {
                let cell = vouched_time::AtomicBaseTime::new();
                let n = match op {
                    Op::OtherCell1 => 1u64,
                    Op::OtherCell2 => 2,
                    _ => 3,
                };
                for s in 1..=n {
                    let t = 4_102_444_800_000 + s; // 2100-01-01: far ahead of every change-time
                    cell.update((t, crate::window::VOUCH.vouch(t)));
                }
                let _ = cell.snapshot();
                println!("COV private-cell-read");
                // not a module call: the harness does not read the module's base time here, so that the
                // private read stays the thread's most recent snapshot when the next module call runs
                continue;
            }
            Op::RetargetTrustedPath => {
                let _ = std::fs::remove_file(env.p_t());
                std::os::unix::fs::symlink(env.u_new(), env.p_t()).map_err(|e| format!("harness: symlink: {}", e))?;
                retargeted = true;
            }
        }
        // ---- after every call
        // (file systems stamp change-times with a coarse clock: let it tick, so that a later touch
        // gets a strictly later change-time than anything stamped by this call)
        std::thread::sleep(std::time::Duration::from_millis(12));
        let after = unlocked().map_err(|e| format!("{}: {}", step, e))?;
        if after < base {
            return Err(format!("{}: the base time went backwards, from {} to {}", step, base, after));
        }
        if after != base {
            println!("COV base-advanced");
            // it must be the change-time of a file on a trusted device (or of the path being registered)
            let mut candidates: Vec<(PathBuf, Option<u64>)> = Vec::new();
            for p in [env.t_old(), env.t_new(), env.u_new(), env.p_t(), env.p_u(), env.u_unowned(), env.other_dir.join("trusted_path")] {
                let on_trusted = std::fs::metadata(&p).map(|m| trusted_devs.contains(&m.dev())).unwrap_or(false);
                if on_trusted || registering.as_deref() == Some(p.as_path()) {
                    candidates.push((p.clone(), ctime_ms(&p)));
                }
            }
            if !candidates.iter().any(|(_, c)| *c == Some(after)) {
                return Err(format!(
                    "{}: the base time moved to {} which is not the change-time of any file on a trusted device (trusted files: {:?})",
                    step,
                    after,
                    candidates.iter().map(|(p, c)| (p.file_name().map(|n| n.to_string_lossy().to_string()), *c)).collect::<Vec<_>>()
                ));
            }
            if trusted_devs.is_empty() {
                return Err(format!("{}: the base time moved before any device was trusted", step));
            }
        } else {
            println!("COV base-unchanged");
        }
        base = after;
    }
    Ok(())
}

/// Builds the scratch environment for one child: fresh directories on both devices, files
/// created >= 25 ms apart (distinct millisecond change-times), U_new newest.
pub fn build_env(tag: &str, swap_roles: bool) -> Result<Env, String> {
    let a = PathBuf::from(format!("/dev/shm/woodpile-c19-{}", tag));
    let b = PathBuf::from(format!("/tmp/woodpile-c19-{}", tag));
    let (trusted_dir, other_dir) = if swap_roles { (b, a) } else { (a, b) };
    for d in [&trusted_dir, &other_dir] {
        let _ = std::fs::remove_dir_all(d);
        std::fs::create_dir_all(d).map_err(|e| format!("cannot create {:?}: {}", d, e))?;
    }
    let env = Env { trusted_dir, other_dir };
    // Each file is (re)written until its change-time is strictly later, at millisecond resolution,
    // than the previous file's (file systems stamp with a coarse clock that can lag by several ms).
    // The files' MODIFICATION times are set explicitly and far from their change-times (an hour
    // and more ahead, or decades back): the module's evidence is the change-time, which only the
    // kernel sets; a modification time is whatever the last writer said it was.
    let write_after = |path: &Path, content: &[u8], prev: u64, mtime: std::time::SystemTime| -> Result<u64, String> {
        for _ in 0..400 {
            std::thread::sleep(std::time::Duration::from_millis(5));
            std::fs::write(path, content).map_err(|e| e.to_string())?;
            let f = std::fs::File::options().write(true).open(path).map_err(|e| e.to_string())?;
            f.set_times(std::fs::FileTimes::new().set_modified(mtime).set_accessed(mtime)).map_err(|e| e.to_string())?;
            drop(f);
            let c = ctime_ms(path).ok_or("no ctime")?;
            if c > prev {
                return Ok(c);
            }
        }
        Err(format!("change-time of {:?} does not advance", path))
    };
    let now = std::time::SystemTime::now();
    let hour = std::time::Duration::from_secs(3600);
    let c1 = write_after(&env.t_old(), b"old", 0, now + 3 * hour)?;
    let c2 = write_after(&env.t_new(), b"new", c1 + 2, std::time::UNIX_EPOCH + std::time::Duration::from_secs(1_000_000_000))?;
    let _c3 = write_after(&env.u_new(), b"untrusted", c2 + 2, now + 2 * hour)?;
    // a file with the trusted path's relative name in the OTHER directory, newest of all
    let _c4 = write_after(&env.other_dir.join("trusted_path"), b"decoy", _c3 + 2, now + hour)?;
    {
        use std::os::unix::fs::PermissionsExt;
        std::fs::write(env.u_unowned(), b"not ours").map_err(|e| e.to_string())?;
        std::fs::set_permissions(env.u_unowned(), std::fs::Permissions::from_mode(0o666)).map_err(|e| e.to_string())?;
    }
    std::thread::sleep(std::time::Duration::from_millis(12));
    if dev_of(&env.trusted_dir) == dev_of(&env.other_dir) {
        return Err("both scratch directories are on the same device".into());
    }
    let (o, n, u) = (ctime_ms(&env.t_old()), ctime_ms(&env.t_new()), ctime_ms(&env.u_new()));
    if !(o < n && n < u) {
        return Err(format!("change-times are not strictly increasing: {:?} {:?} {:?}", o, n, u));
    }
    Ok(env)
}

pub fn cleanup_env(env: &Env) {
    let _ = std::fs::remove_dir_all(&env.trusted_dir);
    let _ = std::fs::remove_dir_all(&env.other_dir);
}

/// Entry point of the child process: `--child <tag> <swap> <history>`.
pub fn child_main(args: &[String]) -> ! {
    let tag = &args[0];
    let swap = args[1] == "1";
    let history = parse(&args[2]).unwrap_or_else(|| {
        eprintln!("bad history");
        std::process::exit(2)
    });
    install_quiet_panic_hook();
    let env = match build_env(tag, swap) {
        Ok(e) => e,
        Err(e) => {
            println!("ENVFAIL {}", e);
            std::process::exit(2);
        }
    };
    let r = catch(|| child(&env, &history));
    cleanup_env(&env);
    match r {
        Ok(Ok(())) => std::process::exit(0),
        Ok(Err(e)) => {
            println!("FAIL {}", e);
            std::process::exit(3);
        }
        Err(p) => {
            println!("FAIL panic: {}", p);
            std::process::exit(3);
        }
    }
}

struct ChildResult {
    ok: bool,
    failure: String,
    cov: Vec<String>,
}

fn run_child(tag: &str, swap: bool, history: &[Op]) -> ChildResult {
    let exe = std::env::current_exe().unwrap_or_else(|e| machinery_failure(&format!("{}", e)));
    let out = std::process::Command::new(exe)
        .arg("--child")
        .arg(tag)
        .arg(if swap { "1" } else { "0" })
        .arg(render(history))
        .output()
        .unwrap_or_else(|e| machinery_failure(&format!("cannot spawn child: {}", e)));
    let stdout = String::from_utf8_lossy(&out.stdout).to_string();
    let cov: Vec<String> = stdout.lines().filter_map(|l| l.strip_prefix("COV ").map(|s| s.to_string())).collect();
    match out.status.code() {
        Some(0) => ChildResult { ok: true, failure: String::new(), cov },
        Some(3) => ChildResult { ok: false, failure: stdout.lines().find_map(|l| l.strip_prefix("FAIL ").map(|s| s.to_string())).unwrap_or("unknown failure".into()), cov },
        other => machinery_failure(&format!("child for [{}] exited with {:?}: {}", render(history), other, stdout.lines().last().unwrap_or(""))),
    }
}

/// Descriptions contain clock-dependent numbers; compare them with digits removed.
fn shape(s: &str) -> String {
    s.chars().filter(|c| !c.is_ascii_digit()).collect()
}

pub fn run(ctx: &Ctx) -> Report {
    let mut rep = Report::new();
    let depth = ctx.tier.pick(3, 4);
    let tag = format!("{}-{}", std::process::id(), ctx.worker.map(|w| w.0).unwrap_or(0));
    // environment sanity (two devices)
    match build_env(&format!("{}-probe", tag), false) {
        Ok(env) => cleanup_env(&env),
        Err(e) => machinery_failure(&format!("C19 needs two writable devices (/dev/shm and /tmp): {}", e)),
    }
    let mut unit = 0usize;
    let mut history: Vec<Op> = Vec::new();
    fn rec(ctx: &Ctx, rep: &mut Report, tag: &str, history: &mut Vec<Op>, depth: usize, unit: &mut usize, ops: &[Op], prefix_len: usize) {
        if history.len() > prefix_len {
            let u = *unit;
            *unit += 1;
            if ctx.owns(u) {
                // the device roles alternate with the history number; the first two levels run both ways
                let roles: Vec<bool> = if history.len() - prefix_len <= 2 { vec![false, true] } else { vec![u % 2 == 1] };
                for swap in roles {
                    rep.evaluations += 1;
                    rep.transitions += history.len() as u64;
                    let r = run_child(tag, swap, history);
                    for c in &r.cov {
                        rep.count(&format!("cov_{}", c.replace('-', "_")), 1);
                    }
                    if r.ok {
                        if r.cov.iter().any(|c| c == "base-advanced") {
                            rep.nontrivial += 1;
                        }
                        rep.state(hash_of(&(render(history), swap)));
                        let mut cov = r.cov.clone();
                        cov.sort();
                        rep.outcome(hash_of(&cov));
                        if rep.want_sample() {
                            rep.sample(format!("trusted={} history [{}] -> {:?}", if swap { "/tmp" } else { "/dev/shm" }, render(history), r.cov));
                        }
                    } else {
                        let again = run_child(tag, swap, history);
                        if again.ok || shape(&again.failure) != shape(&r.failure) {
                            machinery_failure(&format!("C19 violation did not reproduce: [{}] {} / {:?}", render(history), r.failure, again.failure));
                        }
                        let h = render(history);
                        rep.violation(Violation { key: format!("C19:{}:{}", swap, h), summary: format!("nfs_voucher [{}] (trusted device: {}): {}", h, if swap { "/tmp" } else { "/dev/shm" }, r.failure), replay_text: format!("history: {}\nswap: {}\nobserved: {}\n", h, swap, r.failure) });
                    }
                }
            }
        }
        if history.len() - prefix_len < depth {
            for op in ops {
                history.push(*op);
                rec(ctx, rep, tag, history, depth, unit, ops, prefix_len);
                history.pop();
            }
        }
    }
    rec(ctx, &mut rep, &tag, &mut history, depth, &mut unit, &OPS, 0);
    // Non-initial start: a device is already trusted, then every sequence of observations (the ops
    // whose answer may depend on what was observed before) one level deeper than the full alphabet allows.
    let observing = [Op::ObserveTOld, Op::ObserveTNew, Op::ObserveUNew, Op::MaybeObserveTNew, Op::MaybeObserveUNew, Op::GetUnlocked, Op::TouchTOld, Op::AddOtherRefused, Op::OtherCell2, Op::OtherCell3];
    let mut history = vec![Op::AddTrusted];
    rec(ctx, &mut rep, &tag, &mut history, depth, &mut unit, &observing, 1);
    rep.note(format!("C19: after add_trusted_path, all sequences over the {} observing ops {:?} to depth {}", observing.len(), observing, depth));
    // Non-initial start: the trusted path was registered by a relative name and the process then
    // changed its current directory to the other device (where the same name designates a newer file).
    let mut history = vec![Op::AddTrustedRelative, Op::ChdirOther];
    rec(ctx, &mut rep, &tag, &mut history, depth - 1, &mut unit, &OPS, 2);
    rep.note(format!("C19: after add_trusted_path(relative name) and a change of current directory to the other device, all sequences over the {} ops to depth {}", OPS.len(), depth - 1));
    // Non-initial start: the thread has read a private cell (sequence number 1) before the module is used at all.
    let mut history = vec![Op::OtherCell1];
    rec(ctx, &mut rep, &tag, &mut history, depth - 1, &mut unit, &OPS, 1);
    rep.note(format!("C19: after a read of a private AtomicBaseTime at sequence number 1, all sequences over the {} ops to depth {}", OPS.len(), depth - 1));
    rep.max_depth = depth as u64;
    rep.note(format!("C19: all histories over {} ops {:?} to depth {} (each in a fresh child process, trusted device alternating between /dev/shm and the root file system), oracle after every call", OPS.len(), OPS, depth));
    rep
}

pub fn replay(text: &str) -> Result<String, String> {
    let Some(history) = field(text, "history").and_then(parse) else {
        machinery_failure("cannot parse history");
    };
    let swap = field(text, "swap") == Some("true");
    let r = run_child(&format!("{}-replay", std::process::id()), swap, &history);
    if r.ok {
        Err(format!("[{}] base time moved forward only, on trusted evidence only: {:?}", render(&history), r.cov))
    } else {
        Ok(r.failure)
    }
}
