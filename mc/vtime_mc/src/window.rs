//! C14 — VouchedTime exists only inside the allowed window around a vouched base time.
use mc_core::*;
use time::OffsetDateTime;
use time::PrimitiveDateTime;
use vouched_time::VouchedTime;

pub const VOUCH: raffle::VouchingParameters = raffle::VouchingParameters::parse_or_die(
    "VOUCH-773ec2a0e62c20cd-f9e079b78e895091-fc1da7b1b77c57cb-594b9cce3091464a",
);

fn other_params() -> raffle::VouchingParameters {
    let mut seq = [0x9E37_79B9_7F4A_7C15u64, 0xD1B5_4A32_D192_ED03u64].into_iter().cycle();
    raffle::VouchingParameters::generate(|| -> Result<u64, ()> { Ok(seq.next().unwrap()) }).unwrap()
}

fn flip(v: raffle::Voucher, bit: u32) -> raffle::Voucher {
    const _: () = assert!(std::mem::size_of::<raffle::Voucher>() == 8);
    let bits: u64 = unsafe { std::mem::transmute(v) };
    unsafe { std::mem::transmute(bits ^ (1u64 << bit)) }
}

#[derive(Clone, Copy, Debug, PartialEq, Eq)]
pub enum VoucherKind {
    Genuine,
    ForBasePlus1,
    ForBaseMinus1,
    OtherParams,
    BitFlipped,
}
pub const VOUCHERS: [VoucherKind; 5] = [
    VoucherKind::Genuine,
    VoucherKind::ForBasePlus1,
    VoucherKind::ForBaseMinus1,
    VoucherKind::OtherParams,
    VoucherKind::BitFlipped,
];

fn make_voucher(kind: VoucherKind, base: u64) -> raffle::Voucher {
    match kind {
        VoucherKind::Genuine => VOUCH.vouch(base),
        VoucherKind::ForBasePlus1 => VOUCH.vouch(base.wrapping_add(1)),
        VoucherKind::ForBaseMinus1 => VOUCH.vouch(base.wrapping_sub(1)),
        VoucherKind::OtherParams => other_params().vouch(base),
        VoucherKind::BitFlipped => flip(VOUCH.vouch(base), (base % 64) as u32),
    }
}

/// Milliseconds since the epoch -> PrimitiveDateTime, if representable.
pub fn local_from_ms(ms: i128) -> Option<PrimitiveDateTime> {
    let odt = OffsetDateTime::from_unix_timestamp_nanos(ms.checked_mul(1_000_000)?).ok()?;
    Some(PrimitiveDateTime::new(odt.date(), odt.time()))
}

/// The statement, in i128 arithmetic.
pub fn reference_accepts(local_ms: i128, base: u64, kind: VoucherKind) -> bool {
    let delta = local_ms - base as i128;
    kind == VoucherKind::Genuine && local_ms >= 0 && (-59_900..=2_990).contains(&delta)
}

/// One triple.  Ok(accepted) or Err(description).
pub fn check_triple(local_ms: i128, base: u64, kind: VoucherKind) -> Result<bool, String> {
    let Some(local) = local_from_ms(local_ms) else {
        return Ok(false);
    };
    let voucher = make_voucher(kind, base);
    let want = reference_accepts(local_ms, base, kind);
    let got = catch(|| {
        let r = VouchedTime::new(local, base, voucher);
        match r {
            Ok(vt) => {
                vt.check_or_die();
                let back = vt.get_local_time();
                Ok(Some(back))
            }
            Err(_) => {
                // `check` must agree with `new`
                if VouchedTime::check(local, base, voucher).is_ok() {
                    Err("new() failed but check() succeeds".to_string())
                } else {
                    Ok(None)
                }
            }
        }
    });
    match got {
        Err(p) => Err(format!("panicked: {}", p)),
        Ok(Err(e)) => Err(e),
        Ok(Ok(Some(back))) => {
            if !want {
                Err(format!(
                    "accepted: local - base = {} ms, local_ms = {}, voucher {:?}",
                    local_ms - base as i128,
                    local_ms,
                    kind
                ))
            } else if back != local {
                Err(format!("get_local_time() = {} expected {}", back, local))
            } else {
                Ok(true)
            }
        }
        Ok(Ok(None)) => {
            if want {
                Err(format!(
                    "rejected although the voucher is genuine, local >= epoch and local - base = {} ms is inside [-59900, 2990]",
                    local_ms - base as i128
                ))
            } else {
                Ok(false)
            }
        }
    }
}

/// Local times with a sub-millisecond part.  The statement's window is in milliseconds; for a
/// local time between two millisecond ticks the code works on the tick at or below it.  The
/// verdict is asserted only where that reading and the real-valued one agree (they differ only
/// for local - base strictly between +2990 and +2991 ms); exactness of get_local_time, agreement
/// of new / check and absence of panics are asserted everywhere.
pub fn check_triple_ns(local_ns: i128, base: u64, kind: VoucherKind) -> Result<bool, String> {
    let Ok(odt) = OffsetDateTime::from_unix_timestamp_nanos(local_ns) else {
        return Ok(false);
    };
    let local = PrimitiveDateTime::new(odt.date(), odt.time());
    let voucher = make_voucher(kind, base);
    let tick = local_ns.div_euclid(1_000_000);
    let by_tick = reference_accepts(tick, base, kind);
    let delta_ns = local_ns - base as i128 * 1_000_000;
    let by_real = kind == VoucherKind::Genuine && local_ns >= 0 && (-59_900i128 * 1_000_000..=2_990i128 * 1_000_000).contains(&delta_ns);
    let got = catch(|| match VouchedTime::new(local, base, voucher) {
        Ok(vt) => {
            vt.check_or_die();
            Ok(Some(vt.get_local_time()))
        }
        Err(_) => {
            if VouchedTime::check(local, base, voucher).is_ok() {
                Err("new() failed but check() succeeds".to_string())
            } else {
                Ok(None)
            }
        }
    });
    let describe = || format!("local = epoch{:+} ns (local - base = {} ns), voucher {:?}", local_ns, delta_ns, kind);
    match got {
        Err(p) => Err(format!("panicked: {}", p)),
        Ok(Err(e)) => Err(e),
        Ok(Ok(Some(back))) => {
            if back != local {
                return Err(format!("get_local_time() = {} but the VouchedTime was built from {}", back, local));
            }
            if by_tick == by_real && !by_real {
                return Err(format!("accepted: {}", describe()));
            }
            Ok(true)
        }
        Ok(Ok(None)) => {
            if by_tick == by_real && by_real {
                return Err(format!("rejected although inside the window: {}", describe()));
            }
            Ok(false)
        }
    }
}

fn violation(rep: &mut Report, local_ms: i128, base: u64, kind: VoucherKind, err: &str) {
    if check_triple(local_ms, base, kind).is_ok() {
        machinery_failure("C14 violation did not reproduce");
    }
    rep.violation(Violation {
        key: format!("C14:local_ms={}:base={}:{:?}", local_ms, base, kind),
        summary: format!("VouchedTime::new(local = epoch{:+} ms, base = {}, voucher {:?}): {}", local_ms, base, kind, err),
        replay_text: format!("check: window\nlocal_ms: {}\nbase: {}\nvoucher: {:?}\nobserved: {}\n", local_ms, base, kind, err),
    });
}

fn one(rep: &mut Report, local_ms: i128, base: u64, kind: VoucherKind) {
    rep.evaluations += 1;
    match check_triple(local_ms, base, kind) {
        Ok(acc) => {
            if acc {
                rep.nontrivial += 1;
                rep.transitions += 1;
            }
            let delta = local_ms - base as i128;
            let bucket = if delta < -59_900 { 0 } else if delta > 2_990 { 2 } else { 1 };
            rep.outcome(hash_of(&(acc, bucket, local_ms < 0, kind as u8)));
            if rep.want_sample() {
                rep.sample(format!("local = epoch{:+} ms, base = {}, voucher {:?} -> {}", local_ms, base, kind, if acc { "accepted" } else { "rejected" }));
            }
        }
        Err(e) => violation(rep, local_ms, base, kind, &e),
    }
}

const MAX_LOCAL_MS: i128 = 253_402_300_799_999; // 9999-12-31 23:59:59.999
const MIN_LOCAL_MS: i128 = -377_705_116_800_000; // -9999-01-01 00:00:00

/// Calendar landmarks (ms since the epoch, UTC): the seconds around two leap-second insertions, a
/// leap day, the non-leap-year 2100, ends of months and years, the 2^31-second rollover.  The window
/// rule is a pure difference of instants: nothing may depend on where in the calendar it falls.
pub const CALENDAR_MS: [u64; 14] = [
    1_483_228_799_000, // 2016-12-31 23:59:59
    1_483_228_800_000, // 2017-01-01 00:00:00
    1_435_708_799_000, // 2015-06-30 23:59:59
    1_435_708_800_000, // 2015-07-01 00:00:00
    951_782_400_000,   // 2000-02-29 00:00:00
    1_709_251_199_000, // 2024-02-29 23:59:59
    4_107_542_399_000, // 2100-02-28 23:59:59
    4_107_542_400_000, // 2100-03-01 00:00:00
    2_147_483_647_000, // 2038-01-19 03:14:07
    1_704_067_200_000, // 2024-01-01 00:00:00
    1_735_689_599_000, // 2024-12-31 23:59:59
    1_682_899_199_000, // 2023-04-30 23:59:59
    86_399_000,        // 1970-01-01 23:59:59
    31_535_999_000,    // 1970-12-31 23:59:59
];

pub fn landmark_bases() -> Vec<u64> {
    let mut v: Vec<u64> = Vec::new();
    let around = |v: &mut Vec<u64>, c: u64, r: u64| {
        for d in 0..=2 * r {
            v.push(c.wrapping_sub(r).wrapping_add(d));
        }
    };
    v.extend(0..=3);
    around(&mut v, 2_990, 2);
    around(&mut v, 59_900, 2);
    around(&mut v, 62_890, 2);
    v.push(1_000_000_000_000);
    v.push(1_713_027_659_000);
    v.extend(CALENDAR_MS);
    around(&mut v, MAX_LOCAL_MS as u64, 2);
    v.push(MAX_LOCAL_MS as u64 - 2_990);
    v.push(MAX_LOCAL_MS as u64 + 59_900);
    // i64 / u64 nanosecond overflow points, expressed in milliseconds
    around(&mut v, (i64::MAX / 1_000_000) as u64, 1);
    around(&mut v, (u64::MAX / 1_000_000) as u64, 1);
    around(&mut v, 1u64 << 32, 1);
    around(&mut v, 1u64 << 63, 2);
    around(&mut v, u64::MAX - 62_892, 1);
    around(&mut v, u64::MAX - 2, 2);
    v.sort_unstable();
    v.dedup();
    v
}

pub fn special_locals() -> Vec<i128> {
    let mut v = vec![
        MIN_LOCAL_MS,
        MIN_LOCAL_MS + 1,
        -(i64::MAX as i128 / 1_000_000) - 1, // 1677: -2^63 ns
        -(i64::MAX as i128 / 1_000_000),
        -60_001,
        -59_900,
        -2,
        -1,
        0,
        1,
        MAX_LOCAL_MS - 1,
        MAX_LOCAL_MS,
    ];
    for c in [i64::MAX as i128 / 1_000_000, u64::MAX as i128 / 1_000_000, 1i128 << 32, 1i128 << 31] {
        for d in -1..=1 {
            v.push(c + d);
        }
    }
    // calendar landmarks: the second itself, its middle and its end, and the start of the next one
    for c in CALENDAR_MS {
        for d in [0i128, 500, 999, 1000, 1500] {
            v.push(c as i128 + d);
        }
    }
    v
}

pub fn run(ctx: &Ctx) -> Report {
    let mut rep = Report::new();
    let mut unit = 0usize;
    // (i) landmark bases x every millisecond of the window around them (+ slack), genuine voucher;
    //     wrong vouchers at the edge deltas.
    let mut bases = landmark_bases();
    if ctx.tier == Tier::Thorough {
        for k in 10..64u32 {
            for d in 0..=2u64 {
                bases.push((1u64 << k).wrapping_sub(1).wrapping_add(d));
            }
        }
        bases.sort_unstable();
        bases.dedup();
    }
    for base in &bases {
        let u = unit;
        unit += 1;
        if !ctx.owns(u) {
            continue;
        }
        let base = *base;
        for delta in -60_000i128..=3_100 {
            one(&mut rep, base as i128 + delta, base, VoucherKind::Genuine);
        }
        for delta in [-59_901i128, -59_900, -1, 0, 1, 2_990, 2_991] {
            for kind in VOUCHERS {
                one(&mut rep, base as i128 + delta, base, kind);
            }
        }
        // locals that could only match through wrap-around
        for local in 0..=3_000i128 {
            one(&mut rep, local, base, VoucherKind::Genuine);
        }
    }
    // (ii) every base at the top of the u64 range x every local within 3 s of the epoch
    let top = ctx.tier.pick(62_892u64, 80_000);
    for d in 1..=top {
        let u = unit;
        unit += 1;
        if !ctx.owns(u) {
            continue;
        }
        let base = u64::MAX - d + 1;
        for local in 0..=3_000i128 {
            one(&mut rep, local, base, VoucherKind::Genuine);
        }
    }
    // (iii) special local times x every base in the window around them
    for local in special_locals() {
        let u = unit;
        unit += 1;
        if !ctx.owns(u) {
            continue;
        }
        for delta in -3_100i128..=60_000 {
            let base = local + delta;
            if (0..=u64::MAX as i128).contains(&base) {
                one(&mut rep, local, base as u64, VoucherKind::Genuine);
            }
        }
        for base in [0u64, 1, 5_000, u64::MAX, u64::MAX - 1_000, (local.rem_euclid(1i128 << 64)) as u64] {
            for kind in VOUCHERS {
                one(&mut rep, local, base, kind);
            }
        }
    }
    // (iv) sub-millisecond local times around every edge and around the epoch
    {
        let mut sub_bases: Vec<u64> = vec![0, 1, 59_900, 59_901, 1_000_999, 1_713_027_659_000, 1_713_027_659_950, 1_713_027_659_999];
        sub_bases.extend(bases.iter().copied().filter(|b| *b < (1u64 << 50)).take(12));
        for base in sub_bases {
            let u = unit;
            unit += 1;
            if !ctx.owns(u) {
                continue;
            }
            let mut locals_ns: Vec<i128> = Vec::new();
            for delta_ms in [-59_902i128, -59_901, -59_900, -59_899, -1_000, -1, 0, 1, 2_989, 2_990, 2_991] {
                for off in [0i128, 1, 499_999, 500_000, 999_999] {
                    locals_ns.push((base as i128 + delta_ms) * 1_000_000 + off);
                }
            }
            for ns in [-1_000_001i128, -1_000_000, -999_999, -500_000, -1, 0, 1, 999_999] {
                locals_ns.push(ns);
            }
            for local_ns in locals_ns {
                for kind in [VoucherKind::Genuine, VoucherKind::ForBasePlus1] {
                    rep.evaluations += 1;
                    rep.count("sub_millisecond_triples", 1);
                    match check_triple_ns(local_ns, base, kind) {
                        Ok(acc) => {
                            if acc {
                                rep.nontrivial += 1;
                            }
                        }
                        Err(e) => {
                            if check_triple_ns(local_ns, base, kind).is_ok() {
                                machinery_failure("C14 sub-millisecond violation did not reproduce");
                            }
                            rep.violation(Violation {
                                key: format!("C14:local_ns={}:base={}:{:?}", local_ns, base, kind),
                                summary: format!("VouchedTime::new(local = epoch{:+} ns, base = {} ms, voucher {:?}): {}", local_ns, base, kind, e),
                                replay_text: format!("check: window-ns\nlocal_ns: {}\nbase: {}\nvoucher: {:?}\nobserved: {}\n", local_ns, base, kind, e),
                            });
                        }
                    }
                }
            }
        }
    }
    // now(): the provider sees the clock reading `now` and answers base = now_ms + d.
    if ctx.owns(unit) {
        let mut ds: Vec<i128> = vec![-3_100, -2_991, -2_990, -2_989, -1, 0, 1, 59_899, 59_900, 59_901, 62_000];
        ds.extend([-(1i128 << 40), 1i128 << 40]);
        for (d, kind) in ds.iter().flat_map(|d| VOUCHERS.iter().map(move |k| (*d, *k))) {
            rep.evaluations += 1;
            let seen = std::cell::Cell::new(0i128);
            let r = catch(|| {
                VouchedTime::now(|now| {
                    let now_ms = now.unix_timestamp_nanos() / 1_000_000;
                    seen.set(now_ms);
                    let base = (now_ms + d) as u64;
                    Ok((base, make_voucher(kind, base)))
                })
                .map(|vt| vt.get_local_time())
            });
            let want = kind == VoucherKind::Genuine && (-59_900..=2_990).contains(&(-d));
            let verdict = match r {
                Err(p) => Err(format!("now() panicked: {}", p)),
                Ok(Ok(local)) => {
                    let local_ms = local.assume_utc().unix_timestamp_nanos() / 1_000_000;
                    if !want {
                        Err(format!("now() accepted base = now{:+} ms with a {:?} voucher", d, kind))
                    } else if local_ms != seen.get() {
                        Err("now() does not report the clock reading it gave the provider".to_string())
                    } else {
                        Ok(())
                    }
                }
                Ok(Err(_)) if want => Err(format!("now() rejected base = now{:+} ms with a genuine voucher", d)),
                Ok(Err(_)) => Ok(()),
            };
            match verdict {
                Ok(()) => {
                    rep.count("now_cases", 1);
                    rep.outcome(hash_of(&("now", want)));
                }
                Err(e) => rep.violation(Violation { key: format!("C14:now:d={}:{:?}", d, kind), summary: e.clone(), replay_text: format!("check: now\nd: {}\nvoucher: {:?}\nobserved: {}\n", d, kind, e) }),
            }
        }
        // provider error propagates
        let r = catch(|| VouchedTime::now(|_| Err(std::io::Error::other("provider failed"))).is_err());
        rep.evaluations += 1;
        if r != Ok(true) {
            rep.violation(Violation { key: "C14:now:provider-error".into(), summary: "now() did not propagate the provider's error".into(), replay_text: "check: now-error\n".into() });
        }
    }
    rep.max_depth = 1;
    rep.note(format!(
        "C14: {} landmark bases x every ms of [base-60000, base+3100] and of [epoch, epoch+3000]; every base in the top {} of the u64 range x every local in [epoch, epoch+3000 ms]; {} special local times (calendar limits, epoch, i64/u64-nanosecond overflow points) x every base in [local-3100, local+60000]; 5 voucher kinds at the edge differences; now() with 13 provider offsets x 5 voucher kinds",
        bases.len(), top, special_locals().len()
    ));
    rep
}

pub fn replay(text: &str) -> Result<String, String> {
    if field(text, "check") == Some("window-ns") {
        let local_ns: i128 = field(text, "local_ns").and_then(|x| x.parse().ok()).unwrap_or_else(|| machinery_failure("bad local_ns"));
        let base: u64 = field(text, "base").and_then(|x| x.parse().ok()).unwrap_or_else(|| machinery_failure("bad base"));
        let kind = VOUCHERS.iter().copied().find(|k| Some(format!("{:?}", k).as_str()) == field(text, "voucher")).unwrap_or(VoucherKind::Genuine);
        return match check_triple_ns(local_ns, base, kind) {
            Err(e) => Ok(format!("local_ns {} base {} {:?}: {}", local_ns, base, kind, e)),
            Ok(acc) => Err(format!("local_ns {} base {} {:?}: {} as the window rule requires", local_ns, base, kind, if acc { "accepted" } else { "rejected" })),
        };
    }
    if field(text, "check") != Some("window") {
        machinery_failure("only window artefacts can be replayed (now() depends on the clock)");
    }
    let local_ms: i128 = field(text, "local_ms").and_then(|x| x.parse().ok()).unwrap_or_else(|| machinery_failure("bad local_ms"));
    let base: u64 = field(text, "base").and_then(|x| x.parse().ok()).unwrap_or_else(|| machinery_failure("bad base"));
    let kind = VOUCHERS.iter().copied().find(|k| Some(format!("{:?}", k).as_str()) == field(text, "voucher")).unwrap_or(VoucherKind::Genuine);
    match check_triple(local_ms, base, kind) {
        Err(e) => Ok(format!("local_ms {} base {} {:?}: {}", local_ms, base, kind, e)),
        Ok(acc) => Err(format!("local_ms {} base {} {:?}: {} as the window rule requires", local_ms, base, kind, if acc { "accepted" } else { "rejected" })),
    }
}
