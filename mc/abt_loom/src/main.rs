//! abt_loom: C13 — AtomicBaseTime snapshots are never torn and never go
//! backwards, on any schedule and under every reads-from choice the C11 memory
//! model (as implemented by loom 0.7.2) allows.  The checked code is the real
//! /repo/vouched_time/src/atomic_base_time.rs, compiled here by #[path]
//! inclusion against loom-backed stand-ins (hook H3).
#[allow(dead_code)]
#[path = "/repo/vouched_time/src/atomic_base_time.rs"]
mod atomic_base_time;
pub mod verif_sync;

use atomic_base_time::AtomicBaseTime;
use loom::sync::Arc;
use mc_core::*;
use std::sync::atomic::AtomicU64 as StdAtomicU64;
use std::sync::atomic::Ordering as StdOrdering;

// The included file refers to these at the crate root, like in vouched_time.
pub const BASE_TIME_CHECK: raffle::CheckingParameters = raffle::CheckingParameters::parse_or_die("CHECK-fc1da7b1b77c57cb-594b9cce3091464a");
// Mirrors of the other crate-root items of vouched_time that atomic_base_time.rs could refer to.
#[allow(dead_code)]
pub const MAX_FORWARD_DISCREPANCY_MS: u64 = 2990;
#[allow(dead_code)]
pub const MAX_BACKWARD_DISCREPANCY_MS: u64 = 59_900;
const VOUCH: raffle::VouchingParameters = raffle::VouchingParameters::parse_or_die("VOUCH-773ec2a0e62c20cd-f9e079b78e895091-fc1da7b1b77c57cb-594b9cce3091464a");

fn pair(t: u64) -> (u64, raffle::Voucher) {
    (t, VOUCH.vouch(t))
}

/// Creates the object and binds every loom stand-in on the calling (main) thread.
fn fresh() -> Arc<AtomicBaseTime> {
    let abt = AtomicBaseTime::new();
    // one snapshot touches `sequence` and slot 0; one accepted update touches the mutex and
    // slot 1.  The update uses the epoch pair again, so the logical value is still (0, vouch(0)).
    let _ = abt.snapshot();
    abt.update(pair(0));
    let _ = abt.snapshot();
    Arc::new(abt)
}

/// A snapshot with the C13/C18 per-call checks.  `max_updates` bounds the retries.
fn checked_snapshot(abt: &AtomicBaseTime, allowed: &[u64], at_least: u64, max_updates: u32) -> u64 {
    verif_sync::reset_counts();
    let (t, v) = abt.snapshot();
    let (locks, loads, stores) = verif_sync::counts();
    if !C18_MODE.load(StdOrdering::Relaxed) {
        // C13: whole pair, passed to an accepted update, at least as recent as what happened-before
        assert!(BASE_TIME_CHECK.check(t, v), "TORN: snapshot returned base {} with a voucher for another value", t);
        assert!(allowed.contains(&t), "snapshot returned base {} which was never passed to an accepted update (allowed {:?})", t, allowed);
        assert!(t >= at_least, "STALE: snapshot returned base {} although an update to {} completed before it began", t, at_least);
    }
    if C18_MODE.load(StdOrdering::Relaxed) {
        // the C18 cross-check: a snapshot takes no lock and retries only when writes completed
        assert_eq!(locks, 0, "snapshot performed {} lock operations", locks);
        assert_eq!(stores, 0, "snapshot performed {} stores", stores);
        assert!(loads <= 1 + 3 * (1 + max_updates), "snapshot performed {} atomic loads with at most {} concurrent updates", loads, max_updates);
    }
    t
}

fn expect_final(abt: &AtomicBaseTime, want: u64, msg: &str) {
    let got = checked_snapshot(abt, &[want], want, 0);
    if !C18_MODE.load(StdOrdering::Relaxed) {
        assert_eq!(got, want, "{}", msg);
    }
}

#[derive(Clone, Copy, Debug, PartialEq, Eq)]
enum Harness {
    /// main: 2 updates (laps both slots) || reader: 2 snapshots
    A,
    /// main: update(20) || t1: try_update(10) || reader: 1 snapshot
    B,
    /// main: 3 updates || 2 readers x 1 snapshot
    C,
    /// main: update(30) then an OLDER update(10) || reader: 2 snapshots
    D,
    /// main: update then release flag || reader: acquire flag, then snapshot must see the update
    E,
    /// two writers: main update(10), t1 update(20) || reader
    F,
}
const HARNESSES: [Harness; 6] = [Harness::A, Harness::B, Harness::C, Harness::D, Harness::E, Harness::F];

static EXECUTIONS: StdAtomicU64 = StdAtomicU64::new(0);
static C18_MODE: std::sync::atomic::AtomicBool = std::sync::atomic::AtomicBool::new(false);

fn body(h: Harness) {
    EXECUTIONS.fetch_add(1, StdOrdering::Relaxed);
    let abt = fresh();
    match h {
        Harness::A => {
            let r = {
                let abt = abt.clone();
                loom::thread::spawn(move || {
                    let a = checked_snapshot(&abt, &[0, 10, 20], 0, 2);
                    let b = checked_snapshot(&abt, &[0, 10, 20], a, 2);
                    if !C18_MODE.load(StdOrdering::Relaxed) {
                        assert!(b >= a, "snapshots of one thread went backwards: {} then {}", a, b);
                    }
                })
            };
            abt.update(pair(10));
            abt.update(pair(20));
            r.join().unwrap();
            expect_final(&abt, 20, "the final value is not the maximum accepted update");
        }
        Harness::B => {
            let w = {
                let abt = abt.clone();
                loom::thread::spawn(move || {
                    // may lose the race for the lock (false), be older than 20 (false), or win (true)
                    let _ = abt.try_update(pair(10));
                })
            };
            let r = {
                let abt = abt.clone();
                loom::thread::spawn(move || {
                    let a = checked_snapshot(&abt, &[0, 10, 20], 0, 2);
                    let b = checked_snapshot(&abt, &[0, 10, 20], a, 2);
                    if !C18_MODE.load(StdOrdering::Relaxed) {
                        assert!(b >= a, "snapshots of one thread went backwards: {} then {}", a, b);
                    }
                })
            };
            abt.update(pair(20));
            w.join().unwrap();
            r.join().unwrap();
            expect_final(&abt, 20, "an older try_update overwrote a newer update");
        }
        Harness::C => {
            let rs: Vec<_> = (0..2)
                .map(|_| {
                    let abt = abt.clone();
                    loom::thread::spawn(move || {
                        checked_snapshot(&abt, &[0, 10, 20, 30], 0, 3);
                    })
                })
                .collect();
            abt.update(pair(10));
            abt.update(pair(20));
            abt.update(pair(30));
            for r in rs {
                r.join().unwrap();
            }
            expect_final(&abt, 30, "the final value is not the maximum accepted update");
        }
        Harness::D => {
            let r = {
                let abt = abt.clone();
                loom::thread::spawn(move || {
                    let a = checked_snapshot(&abt, &[0, 30], 0, 2);
                    let b = checked_snapshot(&abt, &[0, 30], a, 2);
                    if !C18_MODE.load(StdOrdering::Relaxed) {
                        assert!(b >= a, "snapshots of one thread went backwards: {} then {}", a, b);
                    }
                })
            };
            abt.update(pair(30));
            abt.update(pair(10)); // older: must be ignored
            let accepted_older = abt.try_update(pair(5));
            // (main-thread assertions only after every thread was joined: a panic while loom threads
            // are still alive aborts the process instead of reporting)
            r.join().unwrap();
            if !C18_MODE.load(StdOrdering::Relaxed) {
                assert!(!accepted_older, "try_update accepted an older base time");
            }
            expect_final(&abt, 30, "an older update was not ignored");
        }
        Harness::E => {
            let flag = Arc::new(loom::sync::atomic::AtomicBool::new(false));
            let r = {
                let abt = abt.clone();
                let flag = flag.clone();
                loom::thread::spawn(move || {
                    if flag.load(StdOrdering::Acquire) {
                        // the update completed (happens-before) this snapshot
                        checked_snapshot(&abt, &[10, 20], 10, 1);
                    } else {
                        checked_snapshot(&abt, &[0, 10, 20], 0, 2);
                    }
                })
            };
            abt.update(pair(10));
            flag.store(true, StdOrdering::Release);
            abt.update(pair(20));
            r.join().unwrap();
        }
        Harness::F => {
            let w = {
                let abt = abt.clone();
                loom::thread::spawn(move || {
                    abt.update(pair(20));
                })
            };
            let r = {
                let abt = abt.clone();
                loom::thread::spawn(move || {
                    let a = checked_snapshot(&abt, &[0, 10, 20], 0, 2);
                    let b = checked_snapshot(&abt, &[0, 10, 20], a, 2);
                    if !C18_MODE.load(StdOrdering::Relaxed) {
                        assert!(b >= a, "snapshots of one thread went backwards: {} then {}", a, b);
                    }
                })
            };
            abt.update(pair(10));
            w.join().unwrap();
            r.join().unwrap();
            expect_final(&abt, 20, "the final value is not the maximum accepted update");
        }
    }
}

/// Runs one (harness, pre-emption bound) model.  Ok(executions) or Err(failure message).
fn run_model(h: Harness, bound: Option<usize>, max_secs: u64) -> Result<u64, String> {
    EXECUTIONS.store(0, StdOrdering::Relaxed);
    let mut builder = loom::model::Builder::new();
    builder.preemption_bound = bound;
    builder.max_branches = 100_000;
    builder.max_duration = Some(std::time::Duration::from_secs(max_secs));
    let r = catch(|| builder.check(move || body(h)));
    let n = EXECUTIONS.load(StdOrdering::Relaxed);
    match r {
        Ok(()) => Ok(n),
        Err(p) => Err(format!("{} (after {} executions)", p, n)),
    }
}

fn is_machinery_panic(msg: &str) -> bool {
    ["Arc leaked", "exceeded maximum number of branches", "Model exceeded maximum", "cannot access a scoped thread local", "already borrowed"].iter().any(|m| msg.contains(m))
}

fn run(ctx: &Ctx) -> Report {
    let mut rep = Report::new();
    if ctx.prop != "C13" && ctx.prop != "C18" {
        machinery_failure("abt_loom serves C13 (and the C18 cross-check)");
    }
    C18_MODE.store(ctx.prop == "C18", StdOrdering::Relaxed);
    let bounds: Vec<Option<usize>> = match ctx.tier {
        Tier::Quick => vec![Some(2)],
        Tier::Thorough => vec![Some(2), Some(3), None],
    };
    let mut unit = 0usize;
    'outer: for h in HARNESSES {
        for b in &bounds {
            let u = unit;
            unit += 1;
            if !ctx.owns(u) {
                continue;
            }
            let cap = if b.is_none() { 600 } else { 300 };
            let started = std::time::Instant::now();
            match run_model(h, *b, cap) {
                Ok(n) => {
                    rep.evaluations += n;
                    rep.transitions += n;
                    rep.nontrivial += n;
                    rep.state(hash_of(&(format!("{:?}", h), b)));
                    rep.outcome(hash_of(&(format!("{:?}", h), n)));
                    rep.count(&format!("executions_{:?}_bound_{}", h, b.map(|x| x.to_string()).unwrap_or("unbounded".into())), n);
                    let timed_out = started.elapsed().as_secs() >= cap;
                    if timed_out {
                        rep.not_exhaustive = true;
                        rep.note(format!("harness {:?} with pre-emption bound {:?} hit the {} s duration cap after {} executions (not exhaustive at this bound)", h, b, cap, n));
                    }
                    if n < 8 {
                        // DPOR can collapse to a single execution when accesses are masked: refuse vacuous runs
                        machinery_failure(&format!("harness {:?} bound {:?} explored only {} executions: vacuous", h, b, n));
                    }
                    rep.sample(format!("harness {:?}, pre-emption bound {:?}: {} executions, every one passed the torn/stale/monotonic/lock-free oracles", h, b, n));
                }
                Err(msg) => {
                    if is_machinery_panic(&msg) {
                        machinery_failure(&format!("loom internal failure in harness {:?} bound {:?}: {}", h, b, msg));
                    }
                    rep.evaluations += 1;
                    rep.violation(Violation {
                        key: format!("{}:loom:{:?}:{}", ctx.prop, h, msg.split(" (after").next().unwrap_or("").chars().filter(|c| !c.is_ascii_digit()).take(60).collect::<String>().replace(' ', "_")),
                        summary: format!("loom harness {:?} (pre-emption bound {:?}): {}", h, b, msg),
                        replay_text: format!("harness: {:?}\nbound: {}\nobserved: {}\n", h, b.map(|x| x.to_string()).unwrap_or("unbounded".into()), msg),
                    });
                    // a failed model leaves loom's global state unusable: stop this worker here
                    rep.note("a loom model failed in this worker; its remaining models were not run".to_string());
                    break 'outer;
                }
            }
        }
    }
    rep.max_depth = 3;
    rep.note(format!("loom 0.7.2 over the real atomic_base_time.rs: harnesses A (writer laps both slots || reader x2), B (update || try_update || reader), C (3 updates || 2 readers), D (older update ignored), E (recency through a release/acquire flag), F (two writers || reader); pre-emption bounds {:?}; every schedule and every C11 reads-from choice loom generates", bounds));
    rep
}

fn replay(ctx: &Ctx, text: &str) -> Result<String, String> {
    C18_MODE.store(ctx.prop == "C18", StdOrdering::Relaxed);
    let h = HARNESSES.iter().copied().find(|h| Some(format!("{:?}", h).as_str()) == field(text, "harness")).unwrap_or_else(|| machinery_failure("bad harness"));
    let bound = match field(text, "bound") {
        Some("unbounded") => None,
        Some(x) => x.parse().ok(),
        None => Some(2),
    };
    match run_model(h, bound, 600) {
        Err(e) => Ok(e),
        Ok(n) => Err(format!("all {} executions of harness {:?} pass", n, h)),
    }
}

fn main() {
    main_entry(Engine {
        name: "abt_loom",
        level: |_| "model_checking",
        rule: |_| "loom explores every thread interleaving at atomic-operation granularity up to the pre-emption bound and, for every atomic load, every store it may read from under the C11 release/acquire/relaxed rules; each execution runs the real snapshot/update/try_update code to completion. Oracles in every execution: each snapshot is a whole pair passed to an accepted update (or the epoch pair), at least as recent as every update that happens-before it, per-thread non-decreasing, older updates ignored, final value = maximum accepted, snapshot takes no lock and performs a bounded number of loads, no panic (the crate's own voucher assertion fires on a torn pair), no deadlock. evaluations = executions explored (counted by the harness); states = (harness, bound) models completed.".into(),
        run,
        replay,
        assumptions: |_| vec![
            "loom's implementation of the C11 model (no load buffering / out-of-thin-air; SeqCst not used by the code)".into(),
            "mutex poisoning is not modelled (clear_poison is a no-op in the loom stand-in)".into(),
            "<= 3 threads besides main, <= 3 operations per thread".into(),
        ],
        decode_breadcrumb: None,
    });
}
