//! Loom-backed stand-ins for the `AtomicU64` / `Mutex` of
//! /repo/vouched_time/src/atomic_base_time.rs (hook H3 selects
//! `crate::verif_sync::{AtomicU64, Mutex, Ordering}` when the feature is on).
//!
//! `AtomicBaseTime::new` is a `const fn`, but loom objects must be created inside
//! a model execution: each stand-in binds its loom object lazily, on first use.
//! The harness touches every object on the model's main thread before spawning.
use std::sync::LockResult;
use std::sync::OnceLock;
use std::sync::TryLockResult;

pub use std::sync::atomic::Ordering;

loom::thread_local! {
    /// (lock + try_lock operations, atomic loads, atomic stores) of the current loom thread
    static COUNTS: std::cell::Cell<(u32, u32, u32)> = std::cell::Cell::new((0, 0, 0));
}

pub fn reset_counts() {
    COUNTS.with(|c| c.set((0, 0, 0)));
}

pub fn counts() -> (u32, u32, u32) {
    COUNTS.with(|c| c.get())
}

fn bump(which: usize) {
    COUNTS.with(|c| {
        let mut v = c.get();
        match which {
            0 => v.0 += 1,
            1 => v.1 += 1,
            _ => v.2 += 1,
        }
        c.set(v);
    });
}

#[derive(Debug)]
pub struct AtomicU64 {
    init: u64,
    cell: OnceLock<loom::sync::atomic::AtomicU64>,
}

impl AtomicU64 {
    pub const fn new(value: u64) -> Self {
        AtomicU64 { init: value, cell: OnceLock::new() }
    }
    fn bound(&self) -> &loom::sync::atomic::AtomicU64 {
        self.cell.get_or_init(|| loom::sync::atomic::AtomicU64::new(self.init))
    }
    pub fn load(&self, order: Ordering) -> u64 {
        bump(1);
        self.bound().load(order)
    }
    pub fn store(&self, value: u64, order: Ordering) {
        bump(2);
        self.bound().store(value, order)
    }
}

pub struct Mutex<T> {
    pending: std::sync::Mutex<Option<T>>,
    cell: OnceLock<loom::sync::Mutex<T>>,
}

impl<T> std::fmt::Debug for Mutex<T> {
    fn fmt(&self, f: &mut std::fmt::Formatter<'_>) -> std::fmt::Result {
        write!(f, "Mutex(loom)")
    }
}

impl<T> Mutex<T> {
    pub const fn new(value: T) -> Self {
        Mutex { pending: std::sync::Mutex::new(Some(value)), cell: OnceLock::new() }
    }
    fn bound(&self) -> &loom::sync::Mutex<T> {
        self.cell.get_or_init(|| {
            let value = self.pending.lock().unwrap().take().expect("bound once");
            loom::sync::Mutex::new(value)
        })
    }
    pub fn lock(&self) -> LockResult<loom::sync::MutexGuard<'_, T>> {
        bump(0);
        self.bound().lock()
    }
    pub fn try_lock(&self) -> TryLockResult<loom::sync::MutexGuard<'_, T>> {
        bump(0);
        self.bound().try_lock()
    }
    /// Poisoning is not modelled by loom's mutex.
    pub fn clear_poison(&self) {}
}
