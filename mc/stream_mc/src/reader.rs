//! Scripted readers: the stream is delivered in full reads by default; a
//! schedule says where to deviate (short read, burst of EINTRs).
use std::io::Read;

#[derive(Clone, Copy, Debug, PartialEq, Eq, Hash)]
pub enum Dev {
    /// this call delivers at most 1 byte
    Short1,
    /// this call and the next L-1 calls return Interrupted, then reading resumes
    Eintr(u8),
    /// this call returns Ok(0) although more data follows (the source is a file that is still being
    /// appended to): end of file for now; later calls deliver the rest
    Zero,
}

#[derive(Clone, Debug, PartialEq, Eq, Hash)]
pub enum Sched {
    Full,
    /// every call delivers at most k bytes
    Always(usize),
    /// calls alternately deliver at most 1 and at most 3 bytes
    Alternate13,
    /// full reads, except for these (call index, deviation) pairs
    Devs(Vec<(usize, Dev)>),
}

impl Sched {
    pub fn render(&self) -> String {
        match self {
            Sched::Full => "full".into(),
            Sched::Always(k) => format!("always{}", k),
            Sched::Alternate13 => "alt13".into(),
            Sched::Devs(v) => format!(
                "devs:{}",
                v.iter()
                    .map(|(i, d)| match d {
                        Dev::Short1 => format!("{}s", i),
                        Dev::Eintr(l) => format!("{}e{}", i, l),
                        Dev::Zero => format!("{}z", i),
                    })
                    .collect::<Vec<_>>()
                    .join(",")
            ),
        }
    }
    pub fn parse(text: &str) -> Option<Sched> {
        if text == "full" {
            return Some(Sched::Full);
        }
        if text == "alt13" {
            return Some(Sched::Alternate13);
        }
        if let Some(k) = text.strip_prefix("always") {
            return Some(Sched::Always(k.parse().ok()?));
        }
        let body = text.strip_prefix("devs:")?;
        let mut v = Vec::new();
        for tok in body.split(',') {
            if tok.is_empty() {
                continue;
            }
            if let Some(i) = tok.strip_suffix('s') {
                v.push((i.parse().ok()?, Dev::Short1));
            } else if let Some(i) = tok.strip_suffix('z') {
                v.push((i.parse().ok()?, Dev::Zero));
            } else {
                let (i, l) = tok.split_once('e')?;
                v.push((i.parse().ok()?, Dev::Eintr(l.parse().ok()?)));
            }
        }
        Some(Sched::Devs(v))
    }
}

pub struct ScriptReader<'a> {
    data: &'a [u8],
    pos: usize,
    sched: &'a Sched,
    pub calls: usize,
    eintr_left: usize,
    /// set when the reader was called again after it had reported EOF and the caller already saw it
    pub max_request: usize,
    /// number of Ok(0) answers given while data was still to come
    pub transient_eofs: usize,
}

impl<'a> ScriptReader<'a> {
    pub fn new(data: &'a [u8], sched: &'a Sched) -> Self {
        ScriptReader { data, pos: 0, sched, calls: 0, eintr_left: 0, max_request: 0, transient_eofs: 0 }
    }
    pub fn delivered(&self) -> usize {
        self.pos
    }
}

impl Read for ScriptReader<'_> {
    fn read(&mut self, dst: &mut [u8]) -> std::io::Result<usize> {
        let call = self.calls;
        self.calls += 1;
        self.max_request = self.max_request.max(dst.len());
        if self.eintr_left > 0 {
            self.eintr_left -= 1;
            return Err(std::io::Error::new(std::io::ErrorKind::Interrupted, "eintr"));
        }
        let mut cap = usize::MAX;
        match self.sched {
            Sched::Full => {}
            Sched::Always(k) => cap = *k,
            Sched::Alternate13 => cap = if call % 2 == 0 { 1 } else { 3 },
            Sched::Devs(v) => {
                for (i, d) in v {
                    if *i == call {
                        match d {
                            Dev::Short1 => cap = 1,
                            Dev::Eintr(l) => {
                                self.eintr_left = (*l as usize).saturating_sub(1);
                                return Err(std::io::Error::new(std::io::ErrorKind::Interrupted, "eintr"));
                            }
                            Dev::Zero => {
                                if self.pos < self.data.len() && !dst.is_empty() {
                                    self.transient_eofs += 1;
                                }
                                return Ok(0);
                            }
                        }
                    }
                }
            }
        }
        let n = cap.min(dst.len()).min(self.data.len() - self.pos);
        dst[..n].copy_from_slice(&self.data[self.pos..self.pos + n]);
        self.pos += n;
        Ok(n)
    }
}
