//! stream_mc: fault enumeration over the real StreamChunker (C08) and
//! StreamReader (C06): all streams to a length bound and crash/corruption
//! histories of small logs x block sizes x reader deviation schedules x judges.
mod reader;
mod runs;

use mc_core::*;
use reader::*;
use runs::*;

const ALPHA: [u8; 6] = [0xFE, 0xFD, 0x00, 0x01, 0x61, 0xFF];
const BLOCKS: [usize; 8] = [0, 1, 2, 3, 4, 5, 8, 64];

#[derive(Clone, Copy, PartialEq, Eq)]
enum Mode {
    Chunker,
    Reader,
    Both,
}

struct Case<'a> {
    target: &'static str,
    stream: &'a [u8],
    block: Option<usize>,
    sched: &'a Sched,
    judge: Option<Judge>,
    arena: ArenaState,
}

fn hex_full(bytes: &[u8]) -> String {
    let mut out: Vec<String> = Vec::new();
    let mut i = 0;
    while i < bytes.len() {
        let mut j = i;
        while j < bytes.len() && bytes[j] == bytes[i] {
            j += 1;
        }
        if j - i > 3 {
            out.push(format!("{:02X}x{}", bytes[i], j - i));
        } else {
            for _ in i..j {
                out.push(format!("{:02X}", bytes[i]));
            }
        }
        i = j;
    }
    out.join(" ")
}

impl Case<'_> {
    fn render(&self) -> String {
        format!(
            "target={} block={} sched={} judge={} arena={:?} stream=[{}]",
            self.target,
            block_name(self.block),
            self.sched.render(),
            self.judge.map(|j| j.render()).unwrap_or("-".into()),
            self.arena,
            hex_full(self.stream)
        )
    }
    /// For summaries: long streams are abbreviated (the replay artefact has the full stream).
    fn render_short(&self) -> String {
        if self.stream.len() <= 96 {
            return self.render();
        }
        format!(
            "target={} block={} sched={} judge={} arena={:?} stream=[{} bytes: {} ... {}]",
            self.target,
            block_name(self.block),
            self.sched.render(),
            self.judge.map(|j| j.render()).unwrap_or("-".into()),
            self.arena,
            self.stream.len(),
            hex_full(&self.stream[..24]),
            hex_full(&self.stream[self.stream.len() - 40..])
        )
    }
    fn run(&self) -> Result<usize, String> {
        // rendering a multi-megabyte stream for every case is expensive: the hex text of the last
        // large stream is kept
        thread_local! {
            static LAST_HEX: std::cell::RefCell<(usize, usize, u64, String)> = const { std::cell::RefCell::new((0, 0, 0, String::new())) };
        }
        if self.stream.len() > 4096 {
            let key = (self.stream.as_ptr() as usize, self.stream.len(), hash_of(&self.stream[..64]));
            LAST_HEX.with(|c| {
                let mut c = c.borrow_mut();
                if (c.0, c.1, c.2) != key {
                    *c = (key.0, key.1, key.2, hex_full(self.stream));
                }
                let text = format!(
                    "case: target={} block={} sched={} judge={} arena={:?} stream=[{}]\n",
                    self.target,
                    block_name(self.block),
                    self.sched.render(),
                    self.judge.map(|j| j.render()).unwrap_or("-".into()),
                    self.arena,
                    c.3
                );
                set_breadcrumb(text.as_bytes());
            });
        } else {
            set_breadcrumb(format!("case: {}\n", self.render()).as_bytes());
        }
        match self.target {
            "chunker" => chunker_run(self.stream, self.block.unwrap_or(hcobs::DEFAULT_BLOCK_SIZE), self.sched, self.arena),
            _ => reader_run(self.stream, self.block, self.sched, self.judge.unwrap_or(Judge::Std(usize::MAX, None)), self.arena),
        }
    }
}

fn parse_case(text: &str) -> Option<(String, Option<usize>, Sched, Option<Judge>, ArenaState, Vec<u8>)> {
    let get = |name: &str| -> Option<&str> {
        let start = text.find(&format!("{}=", name))? + name.len() + 1;
        let rest = &text[start..];
        Some(&rest[..rest.find(' ').unwrap_or(rest.len())])
    };
    let block = match get("block")? {
        "default" => None,
        x => Some(x.parse().ok()?),
    };
    let judge = match get("judge")? {
        "-" => None,
        x => Some(Judge::parse(x)?),
    };
    let arena_text = get("arena").unwrap_or("").to_string();
    let arena = ARENA_STATES.iter().copied().find(|a| format!("{:?}", a) == arena_text)?;
    let stream = text.split("stream=[").nth(1)?.split(']').next()?;
    Some((get("target")?.to_string(), block, Sched::parse(get("sched")?)?, judge, arena, unhex(stream)?))
}

fn judged(rep: &mut Report, prop: &str, case: &Case) -> Option<usize> {
    rep.evaluations += 1;
    match case.run() {
        Ok(n) => {
            rep.transitions += n as u64 + 1;
            Some(n)
        }
        Err(e) if !relevant(&e) => {
            rep.count("cases_failing_only_a_sibling_oracle", 1);
            None
        }
        Err(e) => {
            let again = case.run();
            if again.as_ref().err() != Some(&e) {
                machinery_failure(&format!("violation did not reproduce identically: {} / {} / {:?}", case.render(), e, again));
            }
            let r = case.render();
            let key = if case.stream.len() <= 96 { r.replace(' ', ";") } else { format!("{};{:016x}", case.render_short().replace(' ', ";"), hash_of(&case.stream)) };
            rep.violation(Violation { key: format!("{}:{}", prop, key), summary: format!("stream [{}]: {}", case.render_short(), e), replay_text: format!("case: {}\nobserved: {}\n", r, e) });
            None
        }
    }
}

/// Schedules with at most `bound` deviations among the first `calls` reader calls.
fn schedules(calls: usize, bound: usize, bursts: &[u8]) -> Vec<Sched> {
    let mut out = vec![Sched::Full, Sched::Always(1), Sched::Always(2), Sched::Alternate13];
    if bound >= 1 {
        let mut devs: Vec<Dev> = vec![Dev::Short1];
        devs.extend(bursts.iter().map(|l| Dev::Eintr(*l)));
        for i in 0..calls {
            for d in &devs {
                out.push(Sched::Devs(vec![(i, *d)]));
            }
        }
        if bound >= 2 {
            for i in 0..calls {
                for j in i + 1..calls + 2 {
                    for d1 in &devs {
                        for d2 in &devs {
                            out.push(Sched::Devs(vec![(i, *d1), (j, *d2)]));
                        }
                    }
                }
            }
        }
    }
    out
}

/// Judges to try on a stream of length n.
fn judges(n: usize, all_limits: bool) -> Vec<Judge> {
    let mut v = vec![Judge::Std(usize::MAX, None), Judge::Std(1, None), Judge::Std(0, None), Judge::SkipFirst, Judge::SkipBelow(1), Judge::SkipBelow(3), Judge::SkipBelow(n as u64)];
    if all_limits {
        for l in 0..=n as u64 + 1 {
            v.push(Judge::Std(usize::MAX, Some(l)));
        }
    } else {
        for l in [0u64, 1, 2, (n / 2) as u64, n as u64] {
            v.push(Judge::Std(usize::MAX, Some(l)));
        }
    }
    v
}

fn one_stream(rep: &mut Report, prop: &str, mode: Mode, stream: &[u8], blocks: &[Option<usize>], dev_bound: usize, all_limits: bool, arenas: &[ArenaState]) {
    for block in blocks {
        // number of reader calls under full reads, to know where deviations can go
        let b = block.unwrap_or(hcobs::DEFAULT_BLOCK_SIZE).max(1);
        let calls = stream.len() / b + 3;
        let bound = if block.is_none() { 0 } else { dev_bound };
        let mut scheds = schedules(calls.min(stream.len() + 3), bound, &[1, 3, 40]);
        if block.is_none() {
            // the default block size zero-fills 512 KiB per refill: full reads and 1-byte reads only
            scheds.truncate(2);
        }
        // chunker only: a transient end of file (Ok(0) once, data later) at every reader call
        if mode != Mode::Reader && bound >= 1 && stream.len() <= 5 {
            for i in 0..calls.min(stream.len() + 3) {
                let sched = Sched::Devs(vec![(i, Dev::Zero)]);
                let case = Case { target: "chunker", stream, block: *block, sched: &sched, judge: None, arena: ArenaState::Fresh };
                judged(rep, prop, &case);
            }
        }
        for sched in &scheds {
            if mode != Mode::Reader {
                for arena in arenas {
                    let case = Case { target: "chunker", stream, block: *block, sched, judge: None, arena: *arena };
                    if judged(rep, prop, &case).is_some() && !matches!(sched, Sched::Full) {
                        rep.nontrivial += 1;
                    }
                }
            }
            if mode != Mode::Chunker {
                let js = if block.is_none() {
                    vec![Judge::Std(usize::MAX, None), Judge::Std(usize::MAX, Some(stream.len() as u64 / 2))]
                } else if matches!(sched, Sched::Devs(_)) {
                    // deviating readers: the judge rules are independent of the read schedule; three judges
                    vec![Judge::Std(usize::MAX, None), Judge::SkipBelow(3), Judge::Std(1, Some(stream.len() as u64 / 2 + 1))]
                } else {
                    judges(stream.len(), all_limits && matches!(sched, Sched::Full | Sched::Always(1)))
                };
                for (ji, judge) in js.into_iter().enumerate() {
                    let case = Case { target: "reader", stream, block: *block, sched, judge: Some(judge), arena: ArenaState::Fresh };
                    if let Some(n) = judged(rep, prop, &case) {
                        if n > 0 {
                            rep.nontrivial += 1;
                        }
                        rep.outcome(hash_of(&(n, judge.render().len(), stream.len())));
                    }
                    // clients that consume what they were handed before asking for the next record
                    if ji == 0 && matches!(sched, Sched::Full | Sched::Always(1)) && (all_limits || stream.len() > 16) {
                        for client in [ArenaState::ReaderClientConsumesAll, ArenaState::ReaderClientConsumesHalf] {
                            let case = Case { target: "reader", stream, block: *block, sched, judge: Some(judge), arena: client };
                            judged(rep, prop, &case);
                        }
                    }
                }
            }
        }
    }
}

fn strings_over(alpha: &[u8], len: usize, mut f: impl FnMut(&[u8])) {
    let mut buf = vec![0u8; len];
    let total = alpha.len().pow(len as u32);
    for code in 0..total {
        let mut c = code;
        for slot in buf.iter_mut() {
            *slot = alpha[c % alpha.len()];
            c /= alpha.len();
        }
        f(&buf);
    }
}

/// Family (i): ALL streams over the 6-letter alphabet.
fn all_streams(ctx: &Ctx, rep: &mut Report, mode: Mode, unit: &mut usize) {
    let (len_dev, len_full) = ctx.tier.pick((5, 6), (6, 8));
    let dev_bound_short = ctx.tier.pick(1, 2);
    let blocks: Vec<Option<usize>> = BLOCKS.iter().map(|b| Some(*b)).collect();
    let prop = ctx.prop.clone();
    for len in 0..=len_full {
        strings_over(&ALPHA, len, |stream| {
            let u = *unit;
            *unit += 1;
            if !ctx.owns(u) {
                return;
            }
            let bound = if len <= 4 { dev_bound_short } else if len <= len_dev { 1 } else { 0 };
            one_stream(rep, &prop, mode, stream, &blocks, bound, len <= len_dev, &ARENA_STATES[..if len <= len_dev { ARENA_STATES.len() } else { 1 }]);
            if len <= 4 {
                // the 512 KiB default block size only with full reads
                one_stream(rep, &prop, mode, stream, &[None], 0, false, &ARENA_STATES[..1]);
            }
            rep.state(hash_of(&stream));
            if rep.want_sample() {
                let recs = reference_records(stream, Judge::Std(usize::MAX, None));
                rep.sample(format!("stream [{}] x {} block sizes x deviation bound {} -> {} record(s) expected", hex(stream), blocks.len(), bound, recs.len()));
            }
        });
    }
    rep.max_depth = rep.max_depth.max(len_full as u64);
    rep.note(format!(
        "family (i): ALL streams over {:02X?} up to length {} x block sizes {:?} (+ default 512 KiB for length <= 4) x reader schedules: full, always-1, always-2, alternate-1/3, and every single deviation (1-byte read, or a burst of 1 / 3 / 40 EINTRs) at every reader call for length <= {} (every pair of deviations for length <= 4 in the thorough tier) x judges: (inf, none), (1, none), (0, none), skip-first, skip-below-offset L in {{1, 3, len}}, and (inf, L) for every L <= len+1",
        ALPHA, len_full, BLOCKS, len_dev
    ));
}

/// Family (ii): crash / corruption histories of small logs.
fn crash_histories(ctx: &Ctx, rep: &mut Report, mode: Mode, unit: &mut usize) {
    let prop = ctx.prop.clone();
    let payloads: Vec<Vec<u8>> = vec![vec![], vec![0x61], vec![0xFE, 0xFD], vec![0x62; 251], vec![0x63; 252], vec![0x64; 253], vec![0xFE; 3]];
    let max_records = ctx.tier.pick(2, 3);
    let mut logs: Vec<Vec<usize>> = Vec::new();
    let mut frontier: Vec<Vec<usize>> = vec![vec![]];
    for _ in 0..max_records {
        let mut next = Vec::new();
        for l in &frontier {
            for p in 0..payloads.len() {
                let mut t = l.clone();
                t.push(p);
                next.push(t);
            }
        }
        logs.extend(next.iter().cloned());
        frontier = next;
    }
    let blocks_small: Vec<Option<usize>> = vec![Some(1), Some(3), Some(64)];
    let mut streams = 0u64;
    for log in &logs {
        // work units: the intact log is one; every truncation point and every corrupted position is
        // one (a 2-record log of 253-byte payloads is 500 times the work of a short one)
        let u = *unit;
        *unit += 1;
        let owns_log = ctx.owns(u);
        // records separated (and preceded, for every other log) by the delimiter
        let mut bytes: Vec<u8> = Vec::new();
        let lead = log.iter().sum::<usize>() % 2 == 1;
        for (i, p) in log.iter().enumerate() {
            if i > 0 || lead {
                bytes.extend_from_slice(&[0xFE, 0xFD]);
            }
            bytes.extend_from_slice(&encode_record(&payloads[*p]));
        }
        let n = bytes.len();
        let long = n > 300;
        // the intact log, under every block size and the default
        if owns_log {
            one_stream(rep, &prop, mode, &bytes, &[Some(0), Some(1), Some(2), Some(3), Some(64), Some(255), Some(256), None], 0, false, &ARENA_STATES[..1]);
            streams += 1;
        }
        // truncated at every byte (crash), with and without a restarted writer
        let step = if long && ctx.tier == Tier::Quick { 7 } else { 1 };
        let mut cut = 0;
        while cut < n {
            let near_edge = cut < 8 || n - cut < 8 || (250..262).contains(&(cut % 258));
            let selected = step == 1 || near_edge || cut % step == 0;
            let mine = selected && {
                let u = *unit;
                *unit += 1;
                ctx.owns(u)
            };
            if mine {
                one_stream(rep, &prop, mode, &bytes[..cut], &blocks_small[..if long { 2 } else { 3 }], 0, false, &ARENA_STATES[..1]);
                let mut restarted = bytes[..cut].to_vec();
                restarted.extend_from_slice(&[0xFE, 0xFD]);
                restarted.extend_from_slice(&encode_record(&[0x7A]));
                one_stream(rep, &prop, mode, &restarted, &blocks_small[..if long { 1 } else { 2 }], 0, false, &ARENA_STATES[..1]);
                streams += 2;
            }
            cut += 1;
        }
        // every single byte replaced by each of FE FD FF 00 (corruption)
        let mut pos = 0;
        while pos < n {
            let near_edge = pos < 6 || n - pos < 6 || (250..262).contains(&(pos % 258));
            let selected = !long || near_edge || (ctx.tier == Tier::Thorough && pos % 5 == 0) || pos % 37 == 0;
            let mine = selected && {
                let u = *unit;
                *unit += 1;
                ctx.owns(u)
            };
            if mine {
                for v in [0xFEu8, 0xFD, 0xFF, 0x00] {
                    if bytes[pos] != v {
                        let mut c = bytes.clone();
                        c[pos] = v;
                        one_stream(rep, &prop, mode, &c, &blocks_small[1..2], 0, false, &ARENA_STATES[..1]);
                        streams += 1;
                    }
                }
            }
            pos += 1;
        }
        if owns_log {
            rep.state(hash_of(&("log", log)));
        }
    }
    // alignment-sensitive scanning: x^a . q . x^b
    let u = *unit;
    *unit += 1;
    if ctx.owns(u) {
        for q in [&[0xFEu8, 0xFD][..], &[0xFE, 0xFE, 0xFD], &[0xFE, 0xFF, 0xFD], &[0xFE, 0xFF, 0xFF, 0xFD], &[0xFD, 0xFE, 0xFD], &[0xFE]] {
            for a in 0..=17usize {
                for b in [0usize, 1, 8, 9] {
                    let mut s = vec![0x01u8; a];
                    s.extend_from_slice(q);
                    s.extend(std::iter::repeat(0x01).take(b));
                    one_stream(rep, &prop, mode, &s, &[Some(64), Some(5), None], 0, false, &ARENA_STATES[..1]);
                    streams += 1;
                }
            }
        }
    }
    rep.count("crash_history_streams", streams);
    rep.note(format!(
        "family (ii): every log of <= {} records drawn from 7 payloads (empty, 'a', FE FD, 251/252/253 bytes, FE FE FE) written as delimiter-separated canonical encodings: intact under 8 block sizes; truncated at every byte (quick: every byte near record/chunk edges, every 7th elsewhere for logs > 300 bytes) with and without a restarted writer appending delimiter + record; every single byte (near edges; sampled elsewhere for long logs) replaced by FE / FD / FF / 00; plus x^a . q . x^b alignment streams",
        max_records
    ));
}

/// Family (iv): block-size and buffer edges.  (a) arena / block edge: for every block size B in
/// 4090..=4098 and every n in B-5..=B+2, a valid record whose encoding is exactly n bytes, a
/// delimiter, a second record: the delimiter's FE lands on every position around the end of a read
/// and around the end of the reader's first arena chunk.  (b) large blocks: FE FD at every position
/// around 4096, 8192, 16384, 32768, 64008..64014, 65536 and 131072 of a stuff-free filler, alone and
/// after an earlier short chunk, with block sizes 65536, 70000 and the 512 KiB default.
fn edges(ctx: &Ctx, rep: &mut Report, mode: Mode, unit: &mut usize) {
    let prop = ctx.prop.clone();
    let mut streams = 0u64;
    let record_of_len = |n: usize| -> Option<Vec<u8>> {
        // payload length p such that the canonical encoding has exactly n bytes
        for p in n.saturating_sub(40)..=n {
            let payload: Vec<u8> = (0..p).map(|i| 0x41 + (i % 23) as u8).collect();
            let e = encode_record(&payload);
            if e.len() == n {
                return Some(e);
            }
        }
        None
    };
    for b in 4090usize..=4098 {
        let u = *unit;
        *unit += 1;
        if !ctx.owns(u) {
            continue;
        }
        for n in b - 5..=b + 2 {
            let Some(first) = record_of_len(n) else { continue };
            let mut s = first.clone();
            s.extend_from_slice(&[0xFE, 0xFD]);
            s.extend_from_slice(&encode_record(b"second"));
            one_stream(rep, &prop, mode, &s, &[Some(b)], 1, false, &[ArenaState::Fresh, ArenaState::FreshDropEach]);
            // the same with a torn first record (garbage of the same length)
            let mut t = first.clone();
            t[0] = 0xFF;
            t.extend_from_slice(&[0xFE, 0xFD]);
            t.extend_from_slice(&encode_record(b"second"));
            one_stream(rep, &prop, mode, &t, &[Some(b)], 0, false, &ARENA_STATES[..1]);
            streams += 2;
        }
    }
    let mut positions: Vec<usize> = Vec::new();
    for c in [4096usize, 8192, 16384, 32768, 65536, 131072] {
        for d in 0..=6 {
            positions.push(c + d - 3);
        }
    }
    positions.extend(64004..=64016usize);
    if ctx.tier == Tier::Thorough {
        positions.extend(253 * 253 - 4..=253 * 253 + 4);
        positions.extend(2 * 64008 - 4..=2 * 64008 + 8);
    }
    for p in positions {
        let u = *unit;
        *unit += 1;
        if !ctx.owns(u) {
            continue;
        }
        let filler: Vec<u8> = (0..p).map(|i| 0x30 + (i % 61) as u8).collect();
        for prefix in [&b""[..], &[0x78, 0x79, 0x7A, 0xFE, 0xFD][..]] {
            let mut s = prefix.to_vec();
            s.extend_from_slice(&filler);
            s.extend_from_slice(&[0xFE, 0xFD]);
            s.extend_from_slice(&encode_record(b"ab"));
            one_stream(rep, &prop, mode, &s, &[Some(65536), Some(70000), None], 1, false, &ARENA_STATES[..1]);
            streams += 1;
        }
    }
    // (c) block sizes at the arena's largest size class (1 MiB) and one below it (a carried byte
    // makes the refill ask for exactly 1 MiB): streams of ~2.2 MiB so that several refills happen
    // after the arena reached its chunk-size cap
    for block in [1usize << 20, (1 << 20) - 1, (1 << 20) + 1] {
        for p in [(1usize << 20) - 2, (1 << 20) - 1, 1 << 20, 2 * (1 << 20) - 1] {
            let u = *unit;
            *unit += 1;
            if !ctx.owns(u) {
                continue;
            }
            let mut s: Vec<u8> = (0..p).map(|i| 0x30 + (i % 59) as u8).collect();
            s.extend_from_slice(&[0xFE, 0xFD]);
            s.extend((0..(1usize << 20) + 4096).map(|i| 0x41 + (i % 23) as u8));
            s.extend_from_slice(&[0xFE, 0xFD]);
            s.extend_from_slice(&encode_record(b"tail"));
            one_stream(rep, &prop, mode, &s, &[Some(block)], 0, false, &ARENA_STATES[..1]);
            streams += 1;
        }
    }
    rep.note("family (iv)(c): ~2.2 MiB streams with FE FD around 1 MiB and 2 MiB under block sizes 1 MiB - 1, 1 MiB, 1 MiB + 1 (the arena's largest chunk size class; a carried byte makes the refill ask for exactly 1 MiB)".to_string());
    rep.count("edge_streams", streams);
    rep.note("family (iv): block sizes 4090..=4098 x first-record encodings of B-5..=B+2 bytes (valid, and torn) followed by a delimiter and a second record; FE FD at every position within 3 of 4096 / 8192 / 16384 / 32768 / 65536 / 131072 and at 64004..=64016 of a stuff-free filler (alone and after a short first chunk) with block sizes 65536, 70000 and the 512 KiB default; full reads and every single deviation".to_string());
}

/// Family (iii): garbage segments that only a *lenient* decoder would accept: a valid first chunk,
/// then a 2-byte header (lo, hi) for every lo and hi in {0, 1} with exactly the body a lenient
/// reading of that header expects, delimited and followed by a good record.
fn header_garbage(ctx: &Ctx, rep: &mut Report, mode: Mode, unit: &mut usize) {
    if mode == Mode::Chunker {
        return;
    }
    let prop = ctx.prop.clone();
    let mut streams = 0u64;
    for first in [vec![0u8], vec![1u8, 0x78]] {
        for lo in 0..=255usize {
            let u = *unit;
            *unit += 1;
            if !ctx.owns(u) {
                continue;
            }
            for hi in [0usize, 1, 252, 253] {
                let size = (lo + 253 * hi).min(70_000);
                let mut s = first.clone();
                s.push(lo as u8);
                s.push(hi as u8);
                s.extend(std::iter::repeat(0x55).take(size));
                let seg_end = s.len();
                s.extend_from_slice(&[0xFE, 0xFD, 0x01, 0x7A, 0xFE, 0xFD]);
                // with and without a terminating empty chunk inside the segment
                for term in [false, true] {
                    let mut t = s.clone();
                    if term {
                        t.splice(seg_end..seg_end, [0u8, 0u8]);
                    }
                    let blocks: &[Option<usize>] = if size > 1000 { &[Some(4096)] } else { &[Some(3), Some(64)] };
                    one_stream(rep, &prop, mode, &t, blocks, 0, false, &ARENA_STATES[..1]);
                    streams += 1;
                }
            }
        }
    }
    rep.count("header_garbage_streams", streams);
    rep.note("family (iii): for both first-chunk shapes and every second-header byte pair (lo in 0..=255, hi in {0, 1, 252, 253}) a segment carrying exactly the body a lenient reading of that header would expect, with and without a terminating empty chunk, delimited and followed by a valid record: the reader must return it iff the reference decoder accepts it".to_string());
}

/// C10 clause: StreamReader footprint over long logs.
fn footprint(ctx: &Ctx, rep: &mut Report, unit: &mut usize) {
    let prop = ctx.prop.clone();
    let total = ctx.tier.pick(8usize << 20, 48 << 20);
    let kinds: Vec<(&str, Vec<u8>)> = vec![
        ("empty-records", encode_record(&[])),
        ("invalid-records", vec![0xFF]),
        ("one-byte-records", encode_record(&[0x61])),
        ("300-byte-records", encode_record(&[0x62; 300])),
        ("5000-byte-records", encode_record(&[0x63; 5000])),
        // no delimiter at all: an invalid first header byte, so the whole stream is one record to skip
        ("garbage-invalid-no-delimiter", vec![]),
        // no delimiter, and every header byte is a valid digit: one endless *valid* record, which the
        // judge (max_record_size = 1000) tells the reader to skip
        ("garbage-endless-record-judged-too-big", vec![]),
    ];
    for (name, rec) in &kinds {
        for block in [Some(4096usize), Some(65536), None] {
            let u = *unit;
            *unit += 1;
            if !ctx.owns(u) {
                continue;
            }
            rep.evaluations += 1;
            let name = *name;
            let r = catch(|| footprint_run(name, rec, block, total));
            match r {
                Ok(Ok((records, peak, chunks))) => {
                    rep.transitions += records as u64;
                    rep.nontrivial += 1;
                    rep.count_max("max_reader_peak_live_bytes", peak as u64);
                    rep.count_max("max_reader_live_chunks", chunks as u64);
                    rep.outcome(hash_of(&(name, chunks)));
                    rep.sample(format!("StreamReader over {} MiB of {} with block {}: {} records, peak live {} bytes in {} chunks", total >> 20, name, block_name(block), records, peak, chunks));
                }
                Ok(Err(e)) | Err(e) => {
                    rep.violation(Violation { key: format!("{}:footprint:{}:{}", prop, name, block_name(block)), summary: format!("StreamReader footprint [{} block={}]: {}", name, block_name(block), e), replay_text: format!("footprint: {} block={} total={}\nobserved: {}\n", name, block_name(block), total, e) });
                }
            }
        }
    }
    rep.note(format!("StreamReader footprint: {} MiB logs of 7 stream kinds (empty, invalid, 1-byte, 300-byte, 5000-byte records; delimiter-free garbage that is invalid from its first byte; a delimiter-free endless valid record that the judge declares too big) x block sizes {{4096, 65536, default}}: live arena bytes <= 6 x max(1 MiB, block) after every record, live chunks in the last third <= first third + 2, no leak after drop", total >> 20));
}

struct Repeat<'a> {
    unit: &'a [u8],
    pos: usize,
    total: usize,
}
impl std::io::Read for Repeat<'_> {
    fn read(&mut self, dst: &mut [u8]) -> std::io::Result<usize> {
        let n = dst.len().min(self.total - self.pos);
        for (i, slot) in dst[..n].iter_mut().enumerate() {
            *slot = self.unit[(self.pos + i) % self.unit.len()];
        }
        self.pos += n;
        Ok(n)
    }
}

fn footprint_run(name: &str, rec: &[u8], block: Option<usize>, total: usize) -> Result<(usize, usize, usize), String> {
    use owning_iovec::ByteArena;
    owning_iovec::verif::set_quarantine(false);
    let live0 = (ByteArena::num_live_chunks(), ByteArena::num_live_bytes());
    let mut unit_bytes: Vec<u8> = rec.to_vec();
    let mut max_record = usize::MAX;
    if name == "garbage-invalid-no-delimiter" {
        unit_bytes = (0..997u32).map(|i| if i == 0 { 0xFF } else { 1 + (i % 250) as u8 }).collect();
    } else if name == "garbage-endless-record-judged-too-big" {
        unit_bytes = (0..997u32).map(|i| (i % 251) as u8).collect();
        max_record = 1000;
    } else {
        unit_bytes.extend_from_slice(&[0xFE, 0xFD]);
    }
    let mut reader = Repeat { unit: &unit_bytes, pos: 0, total };
    let mut sr = hcobs::StreamReader::new();
    let unit = (1usize << 20).max(block.unwrap_or(hcobs::DEFAULT_BLOCK_SIZE));
    let bound = 6 * unit;
    let mut records = 0usize;
    // (peak live bytes, peak live chunks, peak live chunks per third of the stream, first bound violation)
    let stats = std::cell::RefCell::new((0usize, 0usize, [0usize; 3], None::<String>));
    let observe = |pos: u64, what: &str| {
        let live = ByteArena::num_live_bytes() - live0.1;
        let chunks = ByteArena::num_live_chunks() - live0.0;
        let mut st = stats.borrow_mut();
        st.0 = st.0.max(live);
        st.1 = st.1.max(chunks);
        let third = (pos as u128 * 3 / (total as u128 + 1)).min(2) as usize;
        st.2[third] = st.2[third].max(chunks);
        if live > bound && st.3.is_none() {
            st.3 = Some(format!("[footprint] {} live arena bytes in {} chunks {} at stream offset {} (bound {})", live, chunks, what, pos, bound));
        }
    };
    loop {
        let judge = |range: std::ops::Range<u64>, iovec: owning_iovec::ConsumingIovec<'_>| {
            // the judge runs after every chunk: the footprint is sampled throughout a record
            observe(range.end, "inside a record");
            hcobs::StreamReader::chunk_judge(max_record, None)(range, iovec)
        };
        let r = sr.next_record_bytes(&mut reader, judge, block).map_err(|e| e.to_string())?;
        let done = r.is_none();
        observe(reader.pos as u64, "after a call");
        if let Some(e) = stats.borrow_mut().3.take() {
            return Err(e);
        }
        if done {
            break;
        }
        records += 1;
    }
    let (peak, peak_chunks, chunks_by_third, _) = stats.into_inner();
    if chunks_by_third[2] > chunks_by_third[0] + 2 || peak_chunks > 16 {
        return Err(format!("[footprint] live chunks grow with the stream: per third {:?}, peak {}", chunks_by_third, peak_chunks));
    }
    drop(sr);
    let live1 = (ByteArena::num_live_chunks(), ByteArena::num_live_bytes());
    if live1 != live0 {
        return Err(format!("[leak] arena leak after dropping the StreamReader: {:?} -> {:?}", live0, live1));
    }
    Ok((records, peak, peak_chunks))
}

/// Twin family: two StreamReaders alive at once, asked for records alternately.
fn twins(ctx: &Ctx, rep: &mut Report, unit: &mut usize) {
    let others: Vec<Vec<u8>> = vec![
        vec![0x01, 0x62, 0xFE, 0xFD, 0x00],
        vec![0xFE, 0xFD, 0x02, 0x63, 0xFE],
        vec![0xFF, 0xFE, 0xFD, 0x01, 0x64, 0xFE, 0xFD],
        vec![0x01, 0xFE],
        {
            let mut v = encode_record(&[0x65; 300]);
            v.extend_from_slice(&[0xFE, 0xFD]);
            v.extend(encode_record(&[0x66; 5]));
            v
        },
    ];
    let max_len = ctx.tier.pick(4usize, 5);
    let mut runs = 0u64;
    for len in 0..=max_len {
        strings_over(&ALPHA, len, |a| {
            let u = *unit;
            *unit += 1;
            if !ctx.owns(u) {
                return;
            }
            for b in &others {
                for block in [Some(0usize), Some(1), Some(2), Some(3), Some(8), Some(64)] {
                    runs += 1;
                    rep.evaluations += 1;
                    match twin_reader_run(a, b, block) {
                        Ok(n) => rep.transitions += n as u64 + 2,
                        Err(e) if !relevant(&e) => rep.count("cases_failing_only_a_sibling_oracle", 1),
                        Err(e) => {
                            if twin_reader_run(a, b, block).err().as_ref() != Some(&e) {
                                machinery_failure(&format!("twin violation did not reproduce: {}", e));
                            }
                            let r = format!("block={} a=[{}] b=[{}]", block_name(block), hex_full(a), hex_full(b));
                            rep.violation(Violation { key: format!("{}:twin:{}", ctx.prop, r.replace(' ', ";")), summary: format!("two StreamReaders alive at once [{}]: {}", r, e), replay_text: format!("twin: {}\nobserved: {}\n", r, e) });
                        }
                    }
                }
            }
        });
    }
    rep.count("twin_reader_runs", runs);
    rep.note(format!("twin family: two StreamReaders alive at once and asked for records alternately: stream A = every stream over {:02X?} up to length {}, stream B from a list of {} (records, garbage, delimiters, a 300-byte record), block sizes 0, 1, 2, 3, 8, 64; each reader must return exactly the records of its own stream", ALPHA, max_len, others.len()));
}

fn run(ctx: &Ctx) -> Report {
    let mut rep = Report::new();
    owning_iovec::verif::set_quarantine(true);
    select_oracles(&ctx.prop);
    let mut unit = 0usize;
    match ctx.prop.as_str() {
        "C06" => {
            let t0 = std::time::Instant::now();
            all_streams(ctx, &mut rep, Mode::Reader, &mut unit);
            rep.count_max("max_stage_ms_all_streams", t0.elapsed().as_millis() as u64);
            let t0 = std::time::Instant::now();
            crash_histories(ctx, &mut rep, Mode::Reader, &mut unit);
            rep.count_max("max_stage_ms_crash_histories", t0.elapsed().as_millis() as u64);
            let t0 = std::time::Instant::now();
            header_garbage(ctx, &mut rep, Mode::Reader, &mut unit);
            rep.count_max("max_stage_ms_header_garbage", t0.elapsed().as_millis() as u64);
            let t0 = std::time::Instant::now();
            edges(ctx, &mut rep, Mode::Reader, &mut unit);
            rep.count_max("max_stage_ms_edges", t0.elapsed().as_millis() as u64);
            twins(ctx, &mut rep, &mut unit);
        }
        "C08" => {
            all_streams(ctx, &mut rep, Mode::Chunker, &mut unit);
            crash_histories(ctx, &mut rep, Mode::Chunker, &mut unit);
            edges(ctx, &mut rep, Mode::Chunker, &mut unit);
        }
        "C05" => {
            crash_histories(ctx, &mut rep, Mode::Both, &mut unit);
            edges(ctx, &mut rep, Mode::Both, &mut unit);
            twins(ctx, &mut rep, &mut unit);
        }
        "C10" => {
            crash_histories(ctx, &mut rep, Mode::Both, &mut unit);
            owning_iovec::verif::drain_quarantine();
            footprint(ctx, &mut rep, &mut unit);
        }
        other => machinery_failure(&format!("stream_mc does not serve {}", other)),
    }
    owning_iovec::verif::drain_quarantine();
    rep
}

fn select_oracles(prop: &str) {
    match prop {
        "C05" => set_oracles(&[Oracle::Liveness]),
        "C10" => set_oracles(&[Oracle::Leak, Oracle::Footprint]),
        _ => set_oracles(&[Oracle::Content]),
    }
}

fn replay(ctx: &Ctx, text: &str) -> Result<String, String> {
    owning_iovec::verif::set_quarantine(true);
    select_oracles(&ctx.prop);
    if let Some(f) = field(text, "footprint") {
        let mut it = f.split_whitespace();
        let name = it.next().unwrap_or("");
        let block = it.next().and_then(|b| b.strip_prefix("block=")).map(|b| if b == "default" { None } else { b.parse().ok() }).unwrap_or(None);
        let total: usize = it.next().and_then(|t| t.strip_prefix("total=")).and_then(|t| t.parse().ok()).unwrap_or(12 << 20);
        let rec: Vec<u8> = match name {
            "empty-records" => encode_record(&[]),
            "invalid-records" => vec![0xFF],
            "one-byte-records" => encode_record(&[0x61]),
            "300-byte-records" => encode_record(&[0x62; 300]),
            "5000-byte-records" => encode_record(&[0x63; 5000]),
            _ => vec![],
        };
        return match footprint_run(name, &rec, block, total) {
            Err(e) => Ok(e),
            Ok(s) => Err(format!("within bounds: (records, peak bytes, peak chunks) = {:?}", s)),
        };
    }
    if let Some(t) = field(text, "twin") {
        let bracket = |k: &str| -> Option<Vec<u8>> {
            let at = t.find(&format!("{}=[", k))? + k.len() + 2;
            let end = t[at..].find(']')? + at;
            unhex(&t[at..end])
        };
        let block = t.split_whitespace().find_map(|x| x.strip_prefix("block=")).and_then(|b| b.parse::<usize>().ok());
        let (Some(a), Some(b)) = (bracket("a"), bracket("b")) else {
            machinery_failure("cannot parse twin case");
        };
        return match twin_reader_run(&a, &b, block) {
            Err(e) if !relevant(&e) => Err(format!("only a sibling property's oracle fails: {}", e)),
            Err(e) => Ok(e),
            Ok(n) => Err(format!("{} records returned, each reader those of its own stream", n)),
        };
    }
    let Some((target, block, sched, judge, arena, stream)) = field(text, "case").and_then(parse_case) else {
        machinery_failure("cannot parse case");
    };
    let case = Case { target: if target == "chunker" { "chunker" } else { "reader" }, stream: &stream, block, sched: &sched, judge, arena };
    match case.run() {
        Err(e) if !relevant(&e) => Err(format!("only a sibling property's oracle fails: {}", e)),
        Err(e) => Ok(e),
        Ok(n) => Err(format!("{} {} as the reference says", n, if target == "chunker" { "chunks tile the stream" } else { "records returned" })),
    }
}

fn main() {
    // a runaway execution must die alone (see mc_core::limit_address_space)
    mc_core::limit_address_space(4 << 30);
    main_entry(Engine {
        name: "stream_mc",
        level: |p| if p == "C05" || p == "C10" { "model_checking" } else { "fault_enumeration" },
        rule: |ctx| format!("[{}] every (stream, block size, reader schedule, judge / arena state) combination described in notes is run on the real StreamChunker / StreamReader. Chunker oracle: Data + Sentinels concatenate to the stream, every offset is the absolute end of its chunk, no Data chunk is empty or contains FE FD, no FE|FD straddle between consecutive Data chunks, Eof only at the real end and sticky, every Data slice alive while held. Reader oracle: the (bytes, range) sequence equals the reference (left-to-right FE FD split, reference HCOBS decoder, judge rules), three more calls return None, last_sentinel_offset exact, everything shown to the judge or returned is alive, no leak. states = distinct streams; non-trivial = runs with a deviating reader (chunker) or that return at least one record (reader).", ctx.prop),
        run,
        replay,
        assumptions: |_| vec![
            "hard I/O errors are outside the enumerated schedules (DESIGN observation O1)".into(),
            "custom judges: skip-first (SkipRecord once, for a non-empty range) and skip-below-offset (SkipRecord whenever range.start < L, also for the empty range reported after a delimiter)".into(),
            "reference record list uses the reference decoder of mc_core::refcodec at production limits".into(),
        ],
        decode_breadcrumb: Some(|ctx, bytes| {
            let text = String::from_utf8_lossy(bytes).to_string();
            if text.trim().is_empty() {
                return None;
            }
            Some((format!("{}:abort:{}", ctx.prop, text.trim().replace(['\n', ' '], ";")), text))
        }),
    });
}
