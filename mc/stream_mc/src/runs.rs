//! One run of the real StreamChunker / StreamReader over a byte stream, with
//! the oracles of C08 / C06 (+ the C05 and C10 clauses).
use crate::reader::*;
use hcobs::Chunk;
use hcobs::StreamAction;
use hcobs::StreamChunker;
use hcobs::StreamReader;
use mc_core::refcodec;
use mc_core::*;
use owning_iovec::AnchoredSlice;
use owning_iovec::ByteArena;
use owning_iovec::OwningIovec;
use std::num::NonZeroUsize;

#[derive(Clone, Copy, Debug, PartialEq, Eq, Hash)]
pub enum ArenaState {
    Fresh,
    OneByteLeft,
    SharedWithLiveIovec,
    /// this many bytes left in the arena's current chunk
    BytesLeft(u8),
    /// fresh arena, and the client drops every Data chunk before asking for the next one
    FreshDropEach,
    /// (StreamReader runs) the client consumes the whole returned record from the iovec it was
    /// handed before asking for the next record (the documented usage pattern)
    ReaderClientConsumesAll,
    /// (StreamReader runs) the client consumes half of the returned record
    ReaderClientConsumesHalf,
}
pub const ARENA_STATES: [ArenaState; 14] = [
    ArenaState::Fresh,
    ArenaState::OneByteLeft,
    ArenaState::SharedWithLiveIovec,
    ArenaState::BytesLeft(2),
    ArenaState::BytesLeft(3),
    ArenaState::BytesLeft(4),
    ArenaState::BytesLeft(5),
    ArenaState::BytesLeft(6),
    ArenaState::BytesLeft(7),
    ArenaState::BytesLeft(8),
    ArenaState::BytesLeft(9),
    ArenaState::FreshDropEach,
    ArenaState::ReaderClientConsumesAll,
    ArenaState::ReaderClientConsumesHalf,
];

pub fn block_name(b: Option<usize>) -> String {
    match b {
        None => "default".into(),
        Some(x) => x.to_string(),
    }
}

fn live() -> (usize, usize) {
    (ByteArena::num_live_chunks(), ByteArena::num_live_bytes())
}

struct FullReader<'a>(&'a [u8]);
impl std::io::Read for FullReader<'_> {
    fn read(&mut self, dst: &mut [u8]) -> std::io::Result<usize> {
        let n = dst.len().min(self.0.len());
        dst[..n].copy_from_slice(&self.0[..n]);
        self.0 = &self.0[n..];
        Ok(n)
    }
}

/// C08: pumps the real chunker to Eof and checks the tiling.
pub fn chunker_run(stream: &[u8], block: usize, sched: &Sched, arena_state: ArenaState) -> Result<usize, String> {
    let r = catch(|| chunker_run_inner(stream, block, sched, arena_state));
    owning_iovec::verif::drain_quarantine();
    match r {
        Ok(r) => r,
        Err(p) => Err(format!("panic: {}", p)),
    }
}

fn chunker_run_inner(stream: &[u8], block: usize, sched: &Sched, arena_state: ArenaState) -> Result<usize, String> {
    let live0 = live();
    let mut iov: OwningIovec<'static> = OwningIovec::new();
    match arena_state {
        ArenaState::Fresh | ArenaState::FreshDropEach | ArenaState::ReaderClientConsumesAll | ArenaState::ReaderClientConsumesHalf => {}
        ArenaState::OneByteLeft | ArenaState::BytesLeft(_) => {
            let leave = match arena_state {
                ArenaState::BytesLeft(k) => k as usize,
                _ => 1,
            };
            let arena = iov.arena();
            arena.ensure_capacity(1);
            let rem = arena.remaining();
            let junk = vec![0u8; rem - leave];
            let got = arena.read_n(FullReader(&junk), rem - leave, NonZeroUsize::MAX).map_err(|e| e.to_string())?;
            drop(got);
            if iov.arena().remaining() != leave {
                return Err("harness: could not bring the arena to the requested fill level".into());
            }
        }
        ArenaState::SharedWithLiveIovec => {
            iov.push_copy(b"live data in the same arena");
        }
    }
    let mut chunker = StreamChunker::default();
    let mut reader = ScriptReader::new(stream, sched);
    let mut rebuilt: Vec<u8> = Vec::with_capacity(stream.len());
    let mut held: Vec<(AnchoredSlice, Vec<u8>)> = Vec::new();
    let mut prev_data_last: Option<u8> = None; // last byte of the previous chunk if it was Data
    let mut chunks = 0usize;
    let mut eofs_before_the_end = 0usize;
    let cap = 4 * stream.len() + 16;
    loop {
        if chunks > cap {
            return Err("[content] pump does not reach Eof".into());
        }
        let transient_before = reader.transient_eofs;
        let chunk = chunker.pump(iov.arena(), &mut reader, block).map_err(|e| format!("pump failed: {}", e))?;
        chunks += 1;
        let cut_by_transient_eof = reader.transient_eofs > transient_before;
        match chunk {
            Chunk::Eof => {
                // The reader may have said "end of file" (Ok(0)) while more data was still to come (a
                // file being appended to): each such answer justifies one Eof; the caller pumps
                // again and the tiling goes on where it stopped.  (A stuff sequence cut by such an
                // Eof is necessarily delivered as two Data chunks.)
                if reader.delivered() < stream.len() && eofs_before_the_end < reader.transient_eofs {
                    eofs_before_the_end += 1;
                    prev_data_last = None;
                    continue;
                }
                break;
            }
            Chunk::Sentinel(end) => {
                rebuilt.extend_from_slice(&refcodec::STUFF);
                if end != rebuilt.len() as u64 {
                    return Err(format!("[content] Sentinel reports end offset {} but the chunks so far cover {} bytes", end, rebuilt.len()));
                }
                prev_data_last = None;
            }
            Chunk::Data((end, slice)) => {
                let bytes = slice.slice();
                if bytes.is_empty() {
                    return Err("[content] empty Data chunk".into());
                }
                if !owning_iovec::verif::is_live(bytes.as_ptr() as usize, bytes.len()) {
                    return Err("[live] Data chunk points outside every live arena chunk".into());
                }
                if refcodec::contains_stuff(bytes) {
                    return Err(format!("[content] Data chunk [{}] contains FE FD", hex(bytes)));
                }
                if prev_data_last == Some(0xFE) && bytes[0] == 0xFD {
                    return Err(format!("[content] FE FD straddles two consecutive Data chunks (second one ends at {})", end));
                }
                rebuilt.extend_from_slice(bytes);
                if end != rebuilt.len() as u64 {
                    return Err(format!("[content] Data chunk reports end offset {} but the chunks so far cover {} bytes", end, rebuilt.len()));
                }
                // (a held-back FE flushed because the reader reported an end of file that turned out
                // to be transient is necessarily a chunk of its own: the statement's read schedules
                // do not include such readers, so the straddling clause is not applied across it)
                prev_data_last = if cut_by_transient_eof { None } else { bytes.last().copied() };
                let copy = bytes.to_vec();
                if arena_state == ArenaState::FreshDropEach {
                    // a client that is done with each chunk before asking for the next one: nothing
                    // but the chunker itself keeps the arena's chunks alive
                    drop(slice);
                } else {
                    held.push((slice, copy));
                }
            }
        }
        if rebuilt.len() > stream.len() || stream[..rebuilt.len()] != rebuilt[..] {
            let at = rebuilt.iter().zip(stream.iter()).position(|(a, b)| a != b);
            if let Some(i) = at {
                if rebuilt[i] == 0xFC {
                    // 0xFC is what the quarantine (hook H1) writes over a released chunk
                    return Err(format!("[content] [live] byte {} of the chunks so far is {:#04X} instead of {:#04X}: the poison written over released arena chunks, i.e. the chunker read a byte from a chunk it had let go", i, rebuilt[i], stream[i]));
                }
            }
            return Err(format!("[content] chunks so far [{}] are not a prefix of the stream", hex(&rebuilt)));
        }
    }
    if rebuilt != stream {
        return Err(format!("[content] Eof after {} of {} bytes", rebuilt.len(), stream.len()));
    }
    // Eof is sticky
    for _ in 0..3 {
        match chunker.pump(iov.arena(), &mut reader, block).map_err(|e| format!("pump failed: {}", e))? {
            Chunk::Eof => {}
            _ => return Err("[content] pump returned a chunk after Eof".into()),
        }
    }
    // every Data slice handed out is still alive and intact, even after the arena lets go
    iov.arena().flush_cache();
    for (i, (slice, copy)) in held.iter().enumerate() {
        let b = slice.slice();
        if !owning_iovec::verif::is_live(b.as_ptr() as usize, b.len()) {
            return Err(format!("[live] Data chunk #{} died while still held", i));
        }
        if b != copy.as_slice() {
            return Err(format!("[content] Data chunk #{} changed while held", i));
        }
    }
    drop(held);
    drop(chunker);
    drop(iov);
    let live1 = live();
    if live1 != live0 {
        return Err(format!("[leak] arena leak: live (chunks, bytes) {:?} -> {:?}", live0, live1));
    }
    Ok(chunks)
}

#[derive(Clone, Copy, Debug, PartialEq, Eq, Hash)]
pub enum Judge {
    /// chunk_judge(max_record_size, limit_offset)
    Std(usize, Option<u64>),
    /// SkipRecord the first time it is asked about a non-empty range, KeepGoing otherwise
    SkipFirst,
    /// SkipRecord whenever the range starts before this offset (also when asked about a
    /// delimiter, i.e. with an empty range): "resume after offset L"
    SkipBelow(u64),
}

impl Judge {
    pub fn render(&self) -> String {
        match self {
            Judge::Std(max, lim) => format!("std({},{})", if *max == usize::MAX { "inf".to_string() } else { max.to_string() }, lim.map(|l| l.to_string()).unwrap_or("none".into())),
            Judge::SkipFirst => "skipfirst".into(),
            Judge::SkipBelow(l) => format!("skipbelow({})", l),
        }
    }
    pub fn parse(text: &str) -> Option<Judge> {
        if text == "skipfirst" {
            return Some(Judge::SkipFirst);
        }
        if let Some(l) = text.strip_prefix("skipbelow(").and_then(|x| x.strip_suffix(')')) {
            return Some(Judge::SkipBelow(l.parse().ok()?));
        }
        let body = text.strip_prefix("std(")?.strip_suffix(')')?;
        let (m, l) = body.split_once(',')?;
        let max = if m == "inf" { usize::MAX } else { m.parse().ok()? };
        let lim = if l == "none" { None } else { Some(l.parse().ok()?) };
        Some(Judge::Std(max, lim))
    }
}

/// The statement: the valid, unskipped, in-limit delimited records of a stream.
pub fn reference_records(stream: &[u8], judge: Judge) -> Vec<(Vec<u8>, std::ops::Range<u64>)> {
    let mut out = Vec::new();
    let mut pos = 0usize;
    let mut first_segment_seen = false;
    let n = stream.len();
    while pos <= n {
        // next stuff sequence at or after pos (left to right, non-overlapping)
        let next = refcodec::find_stuff(&stream[pos..]).map(|i| pos + i);
        let end = next.unwrap_or(n);
        if end > pos {
            let (a, b) = (pos as u64, end as u64);
            let decoded = refcodec::decode(&stream[pos..end], refcodec::PROD_FIRST, refcodec::PROD_LATER);
            match judge {
                Judge::Std(max, limit) => {
                    if let Some(l) = limit {
                        if a >= l {
                            break;
                        }
                    }
                    if let Some(d) = decoded {
                        if d.len() <= max {
                            out.push((d, a..b));
                        }
                    }
                }
                Judge::SkipFirst => {
                    if first_segment_seen {
                        if let Some(d) = decoded {
                            out.push((d, a..b));
                        }
                    }
                    first_segment_seen = true;
                }
                Judge::SkipBelow(l) => {
                    if a >= l {
                        if let Some(d) = decoded {
                            out.push((d, a..b));
                        }
                    }
                }
            }
        }
        match next {
            Some(s) => pos = s + 2,
            None => break,
        }
    }
    out
}

fn last_sentinel_start(stream: &[u8]) -> u64 {
    let mut pos = 0usize;
    let mut last = 0u64;
    while let Some(i) = refcodec::find_stuff(&stream[pos..]) {
        last = (pos + i) as u64;
        pos += i + 2;
    }
    last
}

/// C06: reads every record with the real StreamReader and compares with the reference list.
pub fn reader_run(stream: &[u8], block: Option<usize>, sched: &Sched, judge: Judge, client: ArenaState) -> Result<usize, String> {
    let r = catch(|| reader_run_inner(stream, block, sched, judge, client));
    owning_iovec::verif::drain_quarantine();
    match r {
        Ok(r) => r,
        Err(p) => Err(format!("panic: {}", p)),
    }
}

fn reader_run_inner(stream: &[u8], block: Option<usize>, sched: &Sched, judge: Judge, client: ArenaState) -> Result<usize, String> {
    let live0 = live();
    let want = reference_records(stream, judge);
    let mut sr = StreamReader::new();
    let mut reader = ScriptReader::new(stream, sched);
    let mut got: Vec<(Vec<u8>, std::ops::Range<u64>)> = Vec::new();
    let judge_violation = std::cell::RefCell::new(None::<String>);
    let skip_used = std::cell::Cell::new(false);
    let make_judge = || {
        let std_judge = match judge {
            Judge::Std(max, lim) => Some(StreamReader::chunk_judge(max, lim)),
            Judge::SkipFirst | Judge::SkipBelow(_) => None,
        };
        let judge_violation = &judge_violation;
        let skip_used = &skip_used;
        move |range: std::ops::Range<u64>, iovec: owning_iovec::ConsumingIovec<'_>| -> StreamAction {
            // C05 inside the judge: whatever the reader shows the judge must be alive
            for (i, s) in iovec.stable_prefix().iter().enumerate() {
                if !owning_iovec::verif::is_live(s.as_ptr() as usize, s.len()) {
                    judge_violation.borrow_mut().get_or_insert(format!("[live] the judge was shown slice #{} ({} bytes) outside every live arena chunk (range {:?})", i, s.len(), range));
                }
            }
            if iovec.has_pending_backrefs() {
                judge_violation.borrow_mut().get_or_insert("the judge was shown an iovec with a pending placeholder".to_string());
            }
            match &std_judge {
                Some(j) => j(range, iovec),
                None => {
                    if let Judge::SkipBelow(l) = judge {
                        return if range.start < l { StreamAction::SkipRecord } else { StreamAction::KeepGoing };
                    }
                    if !range.is_empty() && !skip_used.get() {
                        skip_used.set(true);
                        StreamAction::SkipRecord
                    } else {
                        StreamAction::KeepGoing
                    }
                }
            }
        }
    };
    let cap = stream.len() + 8;
    loop {
        if got.len() > cap {
            return Err("[content] more records than bytes".into());
        }
        let r = sr.next_record_bytes(&mut reader, make_judge(), block).map_err(|e| format!("next_record_bytes failed: {}", e))?;
        match r {
            None => break,
            Some((iov, range)) => {
                for (i, s) in iov.stable_prefix().iter().enumerate() {
                    if s.is_empty() {
                        return Err(format!("[content] record slice #{} is empty", i));
                    }
                    if !owning_iovec::verif::is_live(s.as_ptr() as usize, s.len()) {
                        return Err(format!("[live] record slice #{} ({} bytes) points outside every live arena chunk", i, s.len()));
                    }
                }
                let bytes = iov.flatten().map_err(|_| "record iovec has a pending placeholder".to_string())?;
                match client {
                    ArenaState::ReaderClientConsumesAll | ArenaState::ReaderClientConsumesHalf => {
                        let n = if client == ArenaState::ReaderClientConsumesAll { usize::MAX } else { bytes.len() / 2 };
                        let took = iov.consumer().advance_slices(n);
                        if took != n.min(bytes.len()) {
                            return Err(format!("[content] the client consumed {} of the {} record bytes it asked to consume", took, n.min(bytes.len())));
                        }
                    }
                    _ => {}
                }
                got.push((bytes, range));
            }
        }
        if let Some(v) = judge_violation.borrow_mut().take() {
            return Err(v);
        }
    }
    if let Some(v) = judge_violation.borrow_mut().take() {
        return Err(v);
    }
    if got != want {
        let show = |v: &Vec<(Vec<u8>, std::ops::Range<u64>)>| v.iter().map(|(b, r)| format!("[{}]@{}..{}", hex(b), r.start, r.end)).collect::<Vec<_>>().join(" ");
        return Err(format!("[content] records returned: {} ; expected: {}", if got.is_empty() { "none".to_string() } else { show(&got) }, if want.is_empty() { "none".to_string() } else { show(&want) }));
    }
    for _ in 0..3 {
        if sr.next_record_bytes(&mut reader, make_judge(), block).map_err(|e| format!("next_record_bytes failed: {}", e))?.is_some() {
            return Err("[content] a record was returned after end of stream".into());
        }
    }
    if let Judge::Std(_, None) | Judge::SkipFirst | Judge::SkipBelow(_) = judge {
        if reader.delivered() != stream.len() {
            return Err(format!("[content] end of stream reported after reading {} of {} bytes", reader.delivered(), stream.len()));
        }
        let want_last = last_sentinel_start(stream);
        if sr.last_sentinel_offset() != want_last {
            return Err(format!("[content] last_sentinel_offset() = {} expected {}", sr.last_sentinel_offset(), want_last));
        }
    }
    drop(sr);
    let live1 = live();
    if live1 != live0 {
        return Err(format!("[leak] arena leak: live (chunks, bytes) {:?} -> {:?}", live0, live1));
    }
    Ok(got.len())
}

/// Canonical encoding of a record (for building logs).
pub fn encode_record(payload: &[u8]) -> Vec<u8> {
    refcodec::encode(payload, refcodec::PROD_FIRST, refcodec::PROD_LATER)
}


/// Two StreamReaders alive at once, each over its own stream, asked for records alternately: each
/// must return exactly the records of its own stream (state kept outside the objects - a static or
/// thread-local buffer, cursor or cache in the chunker, the decoder or the arena - shows here only).
pub fn twin_reader_run(a: &[u8], b: &[u8], block: Option<usize>) -> Result<usize, String> {
    let r = catch(|| twin_reader_inner(a, b, block));
    owning_iovec::verif::drain_quarantine();
    match r {
        Ok(r) => r,
        Err(p) => Err(format!("panic: {}", p)),
    }
}

fn twin_reader_inner(a: &[u8], b: &[u8], block: Option<usize>) -> Result<usize, String> {
    let live0 = live();
    let judge = Judge::Std(usize::MAX, None);
    let wants = [reference_records(a, judge), reference_records(b, judge)];
    let mut readers = [StreamReader::new(), StreamReader::new()];
    let full = Sched::Full;
    let mut sources = [ScriptReader::new(a, &full), ScriptReader::new(b, &full)];
    let mut gots: [Vec<(Vec<u8>, std::ops::Range<u64>)>; 2] = [Vec::new(), Vec::new()];
    let mut done = [false, false];
    let cap = a.len() + b.len() + 16;
    let mut rounds = 0;
    while !(done[0] && done[1]) {
        rounds += 1;
        if rounds > cap {
            return Err("[content] two readers used alternately: more records than bytes".into());
        }
        for i in 0..2 {
            if done[i] {
                continue;
            }
            let r = readers[i].next_record_bytes(&mut sources[i], StreamReader::chunk_judge(usize::MAX, None), block).map_err(|e| format!("next_record_bytes failed: {}", e))?;
            match r {
                None => done[i] = true,
                Some((iov, range)) => {
                    for s in iov.stable_prefix() {
                        if !owning_iovec::verif::is_live(s.as_ptr() as usize, s.len()) {
                            return Err(format!("[live] two readers used alternately: a record slice of reader {} points outside every live arena chunk", if i == 0 { "A" } else { "B" }));
                        }
                    }
                    let bytes = iov.flatten().map_err(|_| "record iovec has a pending placeholder".to_string())?;
                    gots[i].push((bytes, range));
                }
            }
        }
    }
    let show = |v: &Vec<(Vec<u8>, std::ops::Range<u64>)>| if v.is_empty() { "none".to_string() } else { v.iter().map(|(b, r)| format!("[{}]@{}..{}", hex(b), r.start, r.end)).collect::<Vec<_>>().join(" ") };
    for i in 0..2 {
        if gots[i] != wants[i] {
            return Err(format!("[content] two readers used alternately: reader {} returned: {} ; the records of its own stream are: {}", if i == 0 { "A" } else { "B" }, show(&gots[i]), show(&wants[i])));
        }
    }
    let n = gots[0].len() + gots[1].len();
    drop(readers);
    let live1 = live();
    if live1 != live0 {
        return Err(format!("[leak] arena leak: live (chunks, bytes) {:?} -> {:?}", live0, live1));
    }
    Ok(n)
}
