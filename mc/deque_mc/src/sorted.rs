//! C16 — SortedDeque == ordered map with append-only insertion.
use crate::spy::{last_spy, SpyVec};
use mc_core::*;
use sliding_deque::traits::*;
use sliding_deque::SortedDeque;
use smallvec::SmallVec;
use std::collections::BTreeMap;
use std::collections::HashSet;
use std::collections::VecDeque;
use std::num::NonZeroU8;

/// An item convention.
pub trait Conv: Copy + std::fmt::Debug + PartialEq + 'static {
    const NAME: &'static str;
    type K: Clone + std::fmt::Debug + PartialEq + Eq + PartialOrd + Ord;
    fn make(key: u32, val: u8) -> Self;
    fn erased(key: u32) -> Self;
    fn probe(key: u32, val: u8) -> Self::K;
    fn key(&self) -> u32;
    fn val(&self) -> Option<u8>;
}

/// Convention A: (key, Option<value>) pairs, looked up by key.
pub type Pair = (u32, Option<u8>);
impl Conv for Pair {
    const NAME: &'static str = "pair";
    type K = u32;
    fn make(key: u32, val: u8) -> Self {
        (key, Some(val))
    }
    fn erased(key: u32) -> Self {
        (key, None)
    }
    fn probe(key: u32, _val: u8) -> u32 {
        key
    }
    fn key(&self) -> u32 {
        self.0
    }
    fn val(&self) -> Option<u8> {
        self.1
    }
}

/// Convention B: whole-item ordering (like the crate's own `TestItem`), distinct keys.
#[derive(Clone, Copy, Debug, PartialEq, Eq, PartialOrd, Ord)]
pub struct Whole {
    key: u32,
    value: Option<NonZeroU8>,
}
impl SortedDequeItem for Whole {
    fn mark_erased(&mut self) {
        self.value = None;
    }
    fn is_erased(&self) -> bool {
        self.value.is_none()
    }
}
impl Conv for Whole {
    const NAME: &'static str = "whole";
    type K = Whole;
    fn make(key: u32, val: u8) -> Self {
        Whole {
            key,
            value: NonZeroU8::new(val),
        }
    }
    fn erased(key: u32) -> Self {
        Whole { key, value: None }
    }
    fn probe(key: u32, val: u8) -> Whole {
        Whole {
            key,
            value: NonZeroU8::new(val),
        }
    }
    fn key(&self) -> u32 {
        self.key
    }
    fn val(&self) -> Option<u8> {
        self.value.map(|v| v.get())
    }
}

pub trait Cont<T: Conv>: PushTruncateContainer<Item = T> + Clone + Default {
    const NAME: &'static str;
    const SPY: bool;
}
impl<T: Conv> Cont<T> for Vec<T> {
    const NAME: &'static str = "Vec";
    const SPY: bool = false;
}
impl<T: Conv> Cont<T> for SmallVec<[T; 4]> {
    const NAME: &'static str = "SmallVec4";
    const SPY: bool = false;
}
impl<T: Conv> Cont<T> for SpyVec<T> {
    const NAME: &'static str = "SpyVec";
    const SPY: bool = true;
}

#[derive(Clone, Copy, Debug, PartialEq, Eq)]
pub enum Op {
    Push,
    PushErased,
    PopFirst,
    PopLast,
    Clear,
    /// remove the key with this rank among all keys pushed since the last clear
    Remove(u8),
    /// remove an absent key that falls between two pushed keys
    RemoveBetween,
    /// remove an absent key above every pushed key
    RemoveAbove,
    /// push a key equal to / below the last present item ON THE DEQUE ITSELF: it must panic, and
    /// the deque must be unchanged for whoever catches the panic and carries on
    BadPushEqual,
    BadPushBelow,
    /// remove the key with this rank counted from the END of the keys pushed since the last clear
    /// (long histories: removals near the back and in the middle of a large deque)
    RemoveBack(u8),
    /// remove the key in the middle of the keys pushed since the last clear
    RemoveMid,
    /// push the SMALLEST valid key: the last present key + 1 (1 on an empty deque), which lies below
    /// keys that were pushed earlier and have since left through the back or the front
    PushTight,
}

pub const MAX_RANK: u8 = 7;

/// The alphabet plus the rejected pushes performed on the object under test.
pub fn all_ops_ext() -> Vec<Op> {
    let mut v = all_ops();
    v.push(Op::BadPushEqual);
    v.push(Op::BadPushBelow);
    v.push(Op::PushTight);
    v
}

/// Alphabet of the periodic unrollings: positions relative to both ends and the middle.
pub fn all_ops_cyc() -> Vec<Op> {
    let mut v = all_ops_ext();
    v.extend([Op::RemoveBack(0), Op::RemoveBack(1), Op::RemoveBack(2), Op::RemoveBack(5), Op::RemoveMid]);
    v
}

pub fn all_ops() -> Vec<Op> {
    let mut v = vec![
        Op::Push,
        Op::PushErased,
        Op::PopFirst,
        Op::PopLast,
        Op::Clear,
        Op::RemoveBetween,
        Op::RemoveAbove,
    ];
    for r in 0..MAX_RANK {
        v.push(Op::Remove(r));
    }
    v
}

impl Op {
    pub fn name(self) -> String {
        match self {
            Op::Push => "push".into(),
            Op::PushErased => "push_erased".into(),
            Op::PopFirst => "pop_first".into(),
            Op::PopLast => "pop_last".into(),
            Op::Clear => "clear".into(),
            Op::Remove(r) => format!("remove#{}", r),
            Op::RemoveBetween => "remove_between".into(),
            Op::RemoveAbove => "remove_above".into(),
            Op::BadPushEqual => "rejected_push(equal)".into(),
            Op::BadPushBelow => "rejected_push(below)".into(),
            Op::RemoveBack(r) => format!("remove_back#{}", r),
            Op::RemoveMid => "remove_mid".into(),
            Op::PushTight => "push_tight".into(),
        }
    }
    pub fn parse(s: &str) -> Option<Op> {
        all_ops_cyc().into_iter().find(|o| o.name() == s)
    }
}

pub struct St<T: Conv, C: Cont<T>>
where
    (): SortedDequeMarker<T, Key = T::K>,
{
    d: SortedDeque<C, ()>,
    m: BTreeMap<u32, u8>,
    /// every key pushed since the last clear (present, tombstoned or popped), ascending
    keys: Vec<(u32, u8)>,
    counter: u32,
    removed_middle: bool,
    _t: std::marker::PhantomData<T>,
}

impl<T: Conv, C: Cont<T>> Clone for St<T, C>
where
    (): SortedDequeMarker<T, Key = T::K>,
{
    fn clone(&self) -> Self {
        St {
            d: self.d.clone(),
            m: self.m.clone(),
            keys: self.keys.clone(),
            counter: self.counter,
            removed_middle: self.removed_middle,
            _t: std::marker::PhantomData,
        }
    }
}

impl<T: Conv, C: Cont<T>> St<T, C>
where
    (): SortedDequeMarker<T, Key = T::K>,
{
    pub fn new() -> Self {
        St {
            d: SortedDeque::new(C::default(), ()),
            m: BTreeMap::new(),
            keys: Vec::new(),
            counter: 0,
            removed_middle: false,
            _t: std::marker::PhantomData,
        }
    }

    /// (physical length, consumed prefix, erased flags of the live window) — spy backing only.
    pub fn shape(&self) -> (usize, usize, Vec<bool>) {
        let _ = self.d.is_empty(); // goes through container.slice(): publishes base and length
        let (base, phys) = last_spy();
        let consumed = match self.d.first() {
            Some(first) => (first as *const T as usize - base) / std::mem::size_of::<T>(),
            None => phys,
        };
        let items: &[T] = if phys == 0 {
            &[]
        } else {
            unsafe { std::slice::from_raw_parts(base as *const T, phys) }
        };
        let flags = items[consumed.min(phys)..]
            .iter()
            .map(|it| it.val().is_none())
            .collect();
        (phys, consumed, flags)
    }

    fn remove_key(&mut self, key: u32, val: u8) -> Result<(), String> {
        let got = self.d.remove(&T::probe(key, val));
        // whole-item ordering removes an item only when the probe equals it, value included
        let want = if T::NAME == "whole" && self.m.get(&key).is_some_and(|v| *v != val) { None } else { self.m.remove(&key) };
        let is_middle = want.is_some()
            && self.m.keys().next().is_some_and(|lo| *lo < key)
            && self.m.keys().next_back().is_some_and(|hi| *hi > key);
        self.removed_middle |= is_middle;
        match (got, want) {
            (None, None) => Ok(()),
            (Some(item), Some(v)) if item.key() == key && item.val() == Some(v) => Ok(()),
            (got, want) => Err(format!(
                "remove({}) returned {:?} expected {:?}",
                key,
                got,
                want.map(|v| (key, v))
            )),
        }
    }

    fn step(&mut self, op: Op) -> Result<(), String> {
        match op {
            Op::Push => {
                self.counter += 1;
                let key = 2 * self.counter;
                let val = (self.counter % 250 + 1) as u8;
                self.d.push_back_or_panic(T::make(key, val));
                self.m.insert(key, val);
                self.keys.push((key, val));
            }
            Op::PushTight => {
                self.counter += 1;
                let key = self.m.keys().next_back().map(|k| k + 1).unwrap_or(1);
                let val = (self.counter % 250 + 1) as u8;
                self.d.push_back_or_panic(T::make(key, val));
                self.m.insert(key, val);
                self.keys.push((key, val));
                // keep handing out fresh keys above everything used so far
                self.counter = self.counter.max(key / 2 + 1);
            }
            Op::PushErased => {
                // An already-erased item: must be a no-op, whatever its key
                // (here: smaller than the last key when there is one).
                let key = self.keys.last().map(|(k, _)| k - 1).unwrap_or(1);
                self.d.push_back_or_panic(T::erased(key));
            }
            Op::PopFirst => {
                let got = self.d.pop_first();
                let want = self.m.pop_first();
                match (got, want) {
                    (None, None) => {}
                    (Some(item), Some((k, v))) if item.key() == k && item.val() == Some(v) => {}
                    (got, want) => {
                        return Err(format!("pop_first returned {:?} expected {:?}", got, want))
                    }
                }
            }
            Op::PopLast => {
                let got = self.d.pop_last();
                let want = self.m.pop_last();
                match (got, want) {
                    (None, None) => {}
                    (Some(item), Some((k, v))) if item.key() == k && item.val() == Some(v) => {}
                    (got, want) => {
                        return Err(format!("pop_last returned {:?} expected {:?}", got, want))
                    }
                }
            }
            Op::Clear => {
                self.d.clear();
                self.m.clear();
                self.keys.clear();
            }
            Op::Remove(r) => {
                if let Some((k, v)) = self.keys.get(r as usize).copied() {
                    self.remove_key(k, v)?;
                }
            }
            Op::RemoveBetween => {
                if let Some((k, v)) = self.keys.get(self.keys.len() / 2).copied() {
                    self.remove_key(k - 1, v)?;
                }
            }
            Op::RemoveBack(r) => {
                if let Some((k, v)) = self.keys.len().checked_sub(1 + r as usize).and_then(|i| self.keys.get(i)).copied() {
                    self.remove_key(k, v)?;
                }
            }
            Op::RemoveMid => {
                if let Some((k, v)) = self.keys.get(self.keys.len() / 2).copied() {
                    self.remove_key(k, v)?;
                }
            }
            Op::RemoveAbove => {
                let (k, v) = self.keys.last().copied().unwrap_or((0, 1));
                self.remove_key(k + 1, v)?;
            }
            Op::BadPushEqual | Op::BadPushBelow => {
                if let Some((k, v)) = self.m.iter().next_back().map(|(k, v)| (*k, *v)) {
                    let key = if op == Op::BadPushEqual { k } else { k - 1 };
                    let d = &mut self.d;
                    let r = catch(std::panic::AssertUnwindSafe(|| d.push_back_or_panic(T::make(key, v))));
                    if r.is_ok() {
                        return Err(format!("push of key {} (not above the last item {}) did not panic", key, k));
                    }
                    // the model is unchanged: observe() right after this compares everything
                }
            }
        }
        Ok(())
    }

    fn observe(&self) -> Result<(), String> {
        let got: Vec<(u32, Option<u8>)> = self.d.iter().map(|it| (it.key(), it.val())).collect();
        let want: Vec<(u32, Option<u8>)> = self.m.iter().map(|(k, v)| (*k, Some(*v))).collect();
        if got != want {
            return Err(format!("iter() = {:?} expected {:?}", got, want));
        }
        let first = self.d.first().map(|it| (it.key(), it.val()));
        let last = self.d.last().map(|it| (it.key(), it.val()));
        if first != want.first().copied() || last != want.last().copied() {
            return Err(format!(
                "first/last = {:?} {:?} expected {:?} {:?}",
                first,
                last,
                want.first(),
                want.last()
            ));
        }
        if self.d.is_empty() != self.m.is_empty() {
            return Err(format!(
                "is_empty = {} expected {}",
                self.d.is_empty(),
                self.m.is_empty()
            ));
        }
        // Lookups: every key ever pushed since the last clear (present,
        // tombstoned or popped), the absent key just below each, and one above.
        let probe = |key: u32, val: u8, wrong_value: bool| -> Result<(), String> {
            let got = self.d.find(&T::probe(key, val)).map(|it| (it.key(), it.val()));
            // whole-item ordering finds an item only when the probe equals it, value included
            let _ = wrong_value;
            let want = self.m.get(&key).filter(|v| T::NAME != "whole" || **v == val).map(|v| (key, Some(*v)));
            if got != want {
                return Err(format!("find({}) = {:?} expected {:?}", key, got, want));
            }
            Ok(())
        };
        // (long histories: the first 4 and the last 20 keys pushed since the last clear)
        let nk = self.keys.len();
        let picked: Vec<usize> = if nk > 24 { (0..4).chain(nk - 20..nk).collect() } else { (0..nk).collect() };
        for i in picked {
            let (k, v) = &self.keys[i];
            probe(*k, *v, false)?;
            probe(*k - 1, *v, false)?;
            probe(*k, v.wrapping_add(1).max(1), true)?;
        }
        let top = self.keys.last().map(|(k, _)| *k).unwrap_or(0);
        probe(top + 1, 1, false)?;
        Ok(())
    }

    /// The iterator `iter()` hands out, through every `Iterator` method a client may call.
    fn observe_iter(&self) -> Result<(), String> {
        let want: Vec<(u32, Option<u8>)> = self.m.iter().map(|(k, v)| (*k, Some(*v))).collect();
        match catch(|| iter_battery(|| self.d.iter(), |it| (it.key(), it.val()), &want, "iter()")) {
            Ok(r) => r,
            Err(p) => Err(format!("panic: {}", p)),
        }
    }

    /// Out-of-order pushes must panic; run on clones (terminal).
    fn bad_push_probe(&self) -> Result<(), String> {
        let Some((k, v)) = self.m.iter().next_back().map(|(k, v)| (*k, *v)) else {
            return Ok(());
        };
        for (key, val, what) in [(k, v, "equal to"), (k - 1, v, "below")] {
            let mut c = self.d.clone();
            let r = catch(move || c.push_back_or_panic(T::make(key, val)));
            if r.is_ok() {
                return Err(format!(
                    "push of key {} ({} the last item {}) did not panic",
                    key, what, k
                ));
            }
        }
        Ok(())
    }

    pub fn apply(&mut self, op: Op, probe_bad_push: bool) -> Result<(), String> {
        match catch(|| {
            self.step(op)?;
            self.observe()
        }) {
            Ok(r) => r?,
            Err(p) => return Err(format!("panic: {}", p)),
        }
        if probe_bad_push {
            self.bad_push_probe()?;
        }
        Ok(())
    }
}

pub fn render(path: &[Op]) -> String {
    path.iter().map(|o| o.name()).collect::<Vec<_>>().join("; ")
}

pub fn parse_history(text: &str) -> Option<Vec<Op>> {
    let mut ops = Vec::new();
    for tok in text.split(';').map(|s| s.trim()) {
        if tok.is_empty() {
            continue;
        }
        ops.push(Op::parse(tok)?);
    }
    Some(ops)
}

pub use crate::sliding::Mode;

pub fn run_history<T: Conv, C: Cont<T>>(path: &[Op], mode: Mode) -> Result<(), String>
where
    (): SortedDequeMarker<T, Key = T::K>,
{
    let mut st: St<T, C> = St::new();
    for (i, op) in path.iter().enumerate() {
        if mode == Mode::CloneBeforeEachOp {
            st = st.clone();
        }
        st.apply(*op, true)
            .map_err(|e| format!("step {} ({}): {}", i + 1, op.name(), e))?;
    }
    // (reported as a failure of the last step: the explorers report a history at its last step)
    st.observe_iter().map_err(|e| format!("step {} (then iterating): {}", path.len(), e))?;
    Ok(())
}

fn violation<T: Conv, C: Cont<T>>(rep: &mut Report, path: &[Op], err: &str, mode: Mode)
where
    (): SortedDequeMarker<T, Key = T::K>,
{
    if run_history::<T, C>(path, mode).is_ok() {
        machinery_failure(&format!(
            "violation did not reproduce on replay: {} / {}",
            render(path),
            err
        ));
    }
    let hist = render(path);
    rep.violation(Violation {
        key: format!("C16:{}:{}:{}", T::NAME, <C as Cont<T>>::NAME, hist.replace(' ', "")),
        summary: format!(
            "SortedDeque<{}, {}> after [{}] ({}): {}",
            <C as Cont<T>>::NAME,
            T::NAME,
            hist,
            mode.name(),
            err
        ),
        replay_text: format!(
            "check: sorted\nconvention: {}\nbacking: {}\nmode: {}\nhistory: {}\nobserved: {}\n",
            T::NAME,
            <C as Cont<T>>::NAME,
            mode.name(),
            hist,
            err
        ),
    });
}

type Shape = (usize, usize, Vec<bool>);

/// Closure over (physical length, consumed prefix, tombstone flags), <= `cap` physical live-window items.
pub fn closure<T: Conv>(rep: &mut Report, cap: usize) -> HashSet<Shape>
where
    (): SortedDequeMarker<T, Key = T::K>,
{
    let ops = all_ops();
    let mut seen: HashSet<Shape> = HashSet::new();
    let mut frontier: VecDeque<(St<T, SpyVec<T>>, Vec<Op>)> = VecDeque::new();
    let st0: St<T, SpyVec<T>> = St::new();
    seen.insert(st0.shape());
    frontier.push_back((st0, Vec::new()));
    while let Some((st, path)) = frontier.pop_front() {
        let (phys, consumed, _) = st.shape();
        for op in &ops {
            if *op == Op::Push && phys - consumed >= cap {
                continue;
            }
            let mut next = st.clone();
            let mut npath = path.clone();
            npath.push(*op);
            rep.transitions += 1;
            rep.count("closure_transitions", 1);
            match next.apply(*op, true) {
                Err(e) => violation::<T, SpyVec<T>>(rep, &npath, &e, Mode::CloneBeforeEachOp),
                Ok(()) => {
                    rep.max_depth = rep.max_depth.max(npath.len() as u64);
                    if seen.insert(next.shape()) {
                        frontier.push_back((next, npath));
                    }
                }
            }
        }
    }
    for k in &seen {
        rep.state(hash_of(&("C16-shape", T::NAME, k)));
    }
    rep.count("closure_states", seen.len() as u64);
    seen
}

struct Dfs<'a> {
    rep: &'a mut Report,
    ops: Vec<Op>,
    path: Vec<Op>,
    depth: usize,
}

impl Dfs<'_> {
    fn go<T: Conv, C: Cont<T>>(
        &mut self,
        st: &St<T, C>,
        depth_left: usize,
        closure: Option<&HashSet<Shape>>,
        cap: usize,
        within_cap: bool,
    ) where
        (): SortedDequeMarker<T, Key = T::K>,
    {
        for i in 0..self.ops.len() {
            let op = self.ops[i];
            // Ranks beyond the number of keys pushed so far are no-ops: skip them.
            if let Op::Remove(r) = op {
                if r as usize >= st.keys.len() {
                    continue;
                }
            }
            let mut next = st.clone();
            self.path.push(op);
            self.rep.evaluations += 1;
            self.rep.transitions += 1;
            let shallow = self.path.len() + 2 <= self.depth;
            match next.apply(op, shallow) {
                Err(e) => {
                    let path = self.path.clone();
                    violation::<T, C>(self.rep, &path, &e, Mode::CloneBeforeEachOp);
                }
                Ok(()) => {
                    if next.removed_middle {
                        self.rep.nontrivial += 1;
                    }
                    if <C as Cont<T>>::SPY {
                        if let Some(cl) = closure {
                            let shape = next.shape();
                            // only paths that stayed within the closure's size bound all along are covered by it
                            if within_cap && shape.0 - shape.1 <= cap && !cl.contains(&shape) {
                                machinery_failure(&format!(
                                    "abstraction unsound: DFS reached shape {:?} outside the closure via {}",
                                    shape,
                                    render(&self.path)
                                ));
                            }
                        }
                    }
                    if self.rep.want_sample() {
                        let text = format!(
                            "SortedDeque<{},{}>: {} => {:?}",
                            <C as Cont<T>>::NAME,
                            T::NAME,
                            render(&self.path),
                            next.m
                        );
                        self.rep.sample(text);
                    }
                    if depth_left > 1 {
                        let within = within_cap
                            && (!<C as Cont<T>>::SPY || {
                                let sh = next.shape();
                                sh.0.saturating_sub(sh.1) <= cap
                            });
                        self.go(&next, depth_left - 1, closure, cap, within);
                    } else {
                        self.rep.outcome(hash_of(&(
                            next.m.len(),
                            next.m.keys().next().copied(),
                            next.keys.len(),
                        )));
                    }
                }
            }
            self.path.pop();
        }
    }
}

pub fn dfs<T: Conv, C: Cont<T>>(
    ctx: &Ctx,
    rep: &mut Report,
    closure: Option<&HashSet<Shape>>,
    cap: usize,
    depth: usize,
    unit_base: &mut usize,
    prefix: &[Op],
    ext: bool,
) where
    (): SortedDequeMarker<T, Key = T::K>,
{
    let ops = if ext { all_ops_ext() } else { all_ops() };
    // Non-initial start: the prefix history is executed first (same clone-before-each-op way).
    let mut st0: St<T, C> = St::new();
    for (i, op) in prefix.iter().enumerate() {
        st0 = st0.clone();
        if let Err(e) = st0.apply(*op, true) {
            if ctx.owns(*unit_base) {
                violation::<T, C>(rep, &prefix[..=i], &e, Mode::CloneBeforeEachOp);
            }
            return;
        }
    }
    for a in &ops {
        for b in &ops {
            let unit = *unit_base;
            *unit_base += 1;
            if !ctx.owns(unit) {
                continue;
            }
            let mut st = st0.clone();
            let mut path = prefix.to_vec();
            path.push(*a);
            if *b == ops[0] {
                rep.evaluations += 1;
                rep.transitions += 1;
            }
            if let Err(e) = st.apply(*a, true) {
                if *b == ops[0] {
                    violation::<T, C>(rep, &path, &e, Mode::CloneBeforeEachOp);
                }
                continue;
            }
            path.push(*b);
            rep.evaluations += 1;
            rep.transitions += 1;
            let mut st = st.clone();
            if let Err(e) = st.apply(*b, true) {
                violation::<T, C>(rep, &path, &e, Mode::CloneBeforeEachOp);
                continue;
            }
            if depth > 2 {
                let mut d = Dfs {
                    rep,
                    ops: ops.clone(),
                    path,
                    depth: depth + prefix.len(),
                };
                d.go(&st, depth - 2, closure, cap, prefix.is_empty());
            }
            rep.max_depth = rep.max_depth.max(depth as u64);
        }
    }
}

/// Non-initial starts: histories that leave the deque in a state the short DFS from empty does not
/// reach together with enough remaining depth (tombstones then clear, two interior tombstones, emptied by pops, ...).
pub fn prefixes() -> Vec<Vec<Op>> {
    use Op::*;
    vec![
        vec![Push, Push, Push, Remove(1), Clear],
        vec![Push, Push, Push, Push, Push, Remove(1), Remove(3)],
        vec![Push, Push, Push, Push, Remove(1), Remove(2), PopFirst],
        vec![Push, Push, Push, PopFirst, PopFirst, PopFirst],
        vec![Push, Push, Push, Push, Remove(2), PopLast, PopLast],
        vec![Push, PushErased, Push, Remove(0), Push, Push, Remove(3)],
    ]
}

/// All op sequences up to `depth`, each executed on ONE object (no clones), so the backing
/// container's capacity follows its real growth policy.
pub fn dfs_straight<T: Conv, C: Cont<T>>(ctx: &Ctx, rep: &mut Report, depth: usize, unit_base: &mut usize)
where
    (): SortedDequeMarker<T, Key = T::K>,
{
    let ops = all_ops();
    let n = ops.len();
    for len in 1..=depth {
        let total = n.pow(len as u32);
        let block = if len >= 2 { n.pow((len - 2) as u32) } else { total };
        let mut idx = 0usize;
        while idx < total {
            let unit = *unit_base + idx / block;
            if ctx.owns(unit) {
                for j in idx..idx + block {
                    let mut digits = vec![0usize; len];
                    let mut x = j;
                    for d in (0..len).rev() {
                        digits[d] = x % n;
                        x /= n;
                    }
                    let path: Vec<Op> = digits.iter().map(|d| ops[*d]).collect();
                    rep.evaluations += 1;
                    rep.transitions += len as u64;
                    rep.count("straight_histories", 1);
                    if let Err(e) = run_history::<T, C>(&path, Mode::Straight) {
                        if e.starts_with(&format!("step {} ", len)) {
                            violation::<T, C>(rep, &path, &e, Mode::Straight);
                        }
                    }
                }
            }
            idx += block;
        }
        *unit_base += if len >= 2 { n * n } else { 1 };
    }
}

/// Two deques of the same type alive at once and used alternately (a[0], b[0], a[1], ...), each
/// against its own model; the idle one is re-observed after every step of the other.
pub fn run_twin<T: Conv, C: Cont<T>>(pa: &[Op], pb: &[Op]) -> Result<(), String>
where
    (): SortedDequeMarker<T, Key = T::K>,
{
    let mut a: St<T, C> = St::new();
    let mut b: St<T, C> = St::new();
    let obs = |s: &St<T, C>| match catch(|| s.observe()) {
        Ok(r) => r,
        Err(p) => Err(format!("panic: {}", p)),
    };
    for i in 0..pa.len().max(pb.len()) {
        if let Some(op) = pa.get(i) {
            a.apply(*op, false).map_err(|e| format!("deque A step {} ({}): {}", i + 1, op.name(), e))?;
            obs(&b).map_err(|e| format!("deque B after A's step {} ({}): {}", i + 1, op.name(), e))?;
        }
        if let Some(op) = pb.get(i) {
            b.apply(*op, false).map_err(|e| format!("deque B step {} ({}): {}", i + 1, op.name(), e))?;
            obs(&a).map_err(|e| format!("deque A after B's step {} ({}): {}", i + 1, op.name(), e))?;
        }
    }
    Ok(())
}

/// Periodic unrollings: every cycle of 1..=max_len ops over the extended alphabet repeated `reps`
/// times on one object (after `prefix`), or on two objects used alternately.
pub fn cycles<T: Conv, C: Cont<T>>(ctx: &Ctx, rep: &mut Report, prefix: &[Op], max_len: usize, reps: usize, unit_base: &mut usize, twin: bool)
where
    (): SortedDequeMarker<T, Key = T::K>,
{
    let ops = all_ops_cyc();
    let n = ops.len();
    let mut count = 0u64;
    for len in 1..=max_len {
        for c in 0..n.pow(len as u32) {
            if !ctx.owns(*unit_base + c % 4096) {
                continue;
            }
            let mut x = c;
            let mut cycle: Vec<Op> = Vec::with_capacity(len);
            for _ in 0..len {
                cycle.push(ops[x % n]);
                x /= n;
            }
            if (1..len).any(|d| len % d == 0 && (0..len).all(|i| cycle[i] == cycle[i % d])) {
                continue;
            }
            let mut path: Vec<Op> = prefix.to_vec();
            path.extend((0..len * reps).map(|i| cycle[i % len]));
            count += 1;
            rep.evaluations += 1;
            rep.transitions += path.len() as u64 * if twin { 2 } else { 1 };
            if !twin {
                if let Err(e) = run_history::<T, C>(&path, Mode::Straight) {
                    let at = e.strip_prefix("step ").and_then(|r| r.split(' ').next()).and_then(|k| k.parse::<usize>().ok()).unwrap_or(path.len());
                    let cut = &path[..at.min(path.len())];
                    let e2 = run_history::<T, C>(cut, Mode::Straight).err().unwrap_or(e);
                    violation::<T, C>(rep, cut, &e2, Mode::Straight);
                }
            } else {
                let mut pb: Vec<Op> = prefix.to_vec();
                pb.extend((0..len * reps).map(|i| cycle[(i + 1) % len]));
                if let Err(e) = run_twin::<T, C>(&path, &pb) {
                    if run_twin::<T, C>(&path, &pb).err().as_ref() != Some(&e) {
                        machinery_failure(&format!("twin violation did not reproduce identically: {}", e));
                    }
                    rep.violation(Violation {
                        key: format!("C16:twin:{}:{}:{}", T::NAME, <C as Cont<T>>::NAME, render(&cycle).replace(' ', "")),
                        summary: format!("two SortedDeque<{}, {}> used alternately, cycle [{}] x {} (B one op ahead): {}", <C as Cont<T>>::NAME, T::NAME, render(&cycle), reps, e),
                        replay_text: format!("check: sorted-twin\nconvention: {}\nbacking: {}\nhistory-a: {}\nhistory-b: {}\nobserved: {}\n", T::NAME, <C as Cont<T>>::NAME, render(&path), render(&pb), e),
                    });
                }
            }
        }
        *unit_base += 4096;
    }
    rep.count(if twin { "twin_cycles_unrolled" } else { "cycles_unrolled" }, count);
}

/// Marathons: every cycle of 1..=2 ops over the cycle alphabet repeated 70 000 times on one deque
/// (stopped early once more than 64 items are live), oracle after every op.
pub fn marathon<T: Conv, C: Cont<T>>(ctx: &Ctx, rep: &mut Report, max_len: usize, reps: usize, unit_base: &mut usize)
where
    (): SortedDequeMarker<T, Key = T::K>,
{
    let ops = vec![Op::Push, Op::PushTight, Op::PopFirst, Op::PopLast, Op::Remove(0), Op::RemoveBack(0), Op::RemoveBack(1), Op::RemoveMid, Op::Clear];
    let n = ops.len();
    let mut count = 0u64;
    let run = |cycle: &[Op]| -> (Result<(), String>, usize) {
        let mut st: St<T, C> = St::new();
        let mut k = 0usize;
        for _ in 0..reps {
            for op in cycle {
                k += 1;
                if let Err(e) = st.apply(*op, false) {
                    return (Err(e), k);
                }
            }
            if st.m.len() > 64 {
                break;
            }
            // the key space is u32 and keys only grow: stay well inside it
            if st.counter > 1_000_000_000 {
                break;
            }
        }
        (Ok(()), k)
    };
    for len in 1..=max_len {
        for c in 0..n.pow(len as u32) {
            if !ctx.owns(*unit_base + c % 4096) {
                continue;
            }
            let mut x = c;
            let mut cycle: Vec<Op> = Vec::with_capacity(len);
            for _ in 0..len {
                cycle.push(ops[x % n]);
                x /= n;
            }
            if (1..len).any(|d| len % d == 0 && (0..len).all(|i| cycle[i] == cycle[i % d])) {
                continue;
            }
            count += 1;
            rep.evaluations += 1;
            let (r, steps) = run(&cycle);
            rep.transitions += steps as u64;
            if let Err(e) = r {
                let again = run(&cycle);
                if again.0.as_ref().err() != Some(&e) || again.1 != steps {
                    machinery_failure(&format!("marathon violation did not reproduce identically: cycle [{}] step {}: {}", render(&cycle), steps, e));
                }
                rep.violation(Violation {
                    key: format!("C16:marathon:{}:{}:{}", T::NAME, <C as Cont<T>>::NAME, render(&cycle).replace(' ', "")),
                    summary: format!("SortedDeque<{}, {}>, cycle [{}] repeated: at step {} (repetition {}): {}", <C as Cont<T>>::NAME, T::NAME, render(&cycle), steps, (steps - 1) / len + 1, e),
                    replay_text: format!("check: sorted-marathon\nconvention: {}\nbacking: {}\ncycle: {}\nreps: {}\nobserved: step {}: {}\n", T::NAME, <C as Cont<T>>::NAME, render(&cycle), reps, steps, e),
                });
            }
        }
        *unit_base += 4096;
    }
    rep.count("marathon_cycles", count);
}

pub fn run(ctx: &Ctx) -> Report {
    let mut rep = Report::new();
    let cap = 7;
    let mut scratch = Report::new();
    let cl_pair = closure::<Pair>(&mut scratch, cap);
    let cl_whole = closure::<Whole>(&mut scratch, cap);
    // a closure that met violations stopped expanding the failing states: it is then incomplete, and
    // the "every shape the DFS reaches is in the closure" cross-check has nothing to say
    let closure_complete = scratch.violations.is_empty();
    let cl_pair_opt = if closure_complete { Some(&cl_pair) } else { None };
    let cl_whole_opt = if closure_complete { Some(&cl_whole) } else { None };
    if ctx.owns(0) {
        scratch.evaluations = scratch.transitions;
        rep.merge(scratch);
    }
    let depth = ctx.tier.pick(7, 8);
    let mut unit = 0usize;
    dfs::<Pair, SpyVec<Pair>>(ctx, &mut rep, cl_pair_opt, cap, depth, &mut unit, &[], false);
    dfs::<Whole, SpyVec<Whole>>(ctx, &mut rep, cl_whole_opt, cap, depth, &mut unit, &[], false);
    dfs::<Pair, SmallVec<[Pair; 4]>>(ctx, &mut rep, None, cap, depth, &mut unit, &[], false);
    dfs::<Whole, Vec<Whole>>(ctx, &mut rep, None, cap, depth - 1, &mut unit, &[], false);
    for p in prefixes() {
        dfs::<Pair, SpyVec<Pair>>(ctx, &mut rep, None, cap, depth - 1, &mut unit, &p, false);
        dfs::<Whole, Vec<Whole>>(ctx, &mut rep, None, cap, depth - 2, &mut unit, &p, false);
    }
    // SmallVec backing that has spilled to the heap (more than 4 items) before the enumeration starts
    for p in [vec![Op::Push; 5], vec![Op::Push, Op::Push, Op::Push, Op::Push, Op::Push, Op::Push, Op::PopFirst]] {
        dfs::<Pair, SmallVec<[Pair; 4]>>(ctx, &mut rep, None, cap, depth - 2, &mut unit, &p, false);
    }
    // rejected pushes on the object itself (caught, then the history goes on), one level shallower
    dfs::<Pair, SpyVec<Pair>>(ctx, &mut rep, None, cap, depth - 1, &mut unit, &[], true);
    dfs::<Whole, Vec<Whole>>(ctx, &mut rep, None, cap, depth - 2, &mut unit, &[], true);
    dfs_straight::<Pair, SmallVec<[Pair; 4]>>(ctx, &mut rep, depth - 2, &mut unit);
    dfs_straight::<Whole, Vec<Whole>>(ctx, &mut rep, depth - 2, &mut unit);
    let (cl_len, cl_reps) = (ctx.tier.pick(3, 4), ctx.tier.pick(30, 60));
    cycles::<Pair, SpyVec<Pair>>(ctx, &mut rep, &[], cl_len, cl_reps, &mut unit, false);
    cycles::<Pair, SmallVec<[Pair; 4]>>(ctx, &mut rep, &[], cl_len, cl_reps, &mut unit, false);
    cycles::<Whole, Vec<Whole>>(ctx, &mut rep, &[], cl_len, cl_reps, &mut unit, false);
    cycles::<Pair, SmallVec<[Pair; 4]>>(ctx, &mut rep, &[Op::Push; 9], cl_len - 1, cl_reps, &mut unit, false);
    cycles::<Pair, SpyVec<Pair>>(ctx, &mut rep, &[], cl_len - 1, cl_reps, &mut unit, true);
    cycles::<Whole, Vec<Whole>>(ctx, &mut rep, &[], cl_len - 1, cl_reps, &mut unit, true);
    marathon::<Pair, Vec<Pair>>(ctx, &mut rep, 2, 70_000, &mut unit);
    rep.note("C16: marathons: every cycle of 1..=2 ops over 9 ops (push, push_tight, pop_first, pop_last, remove of the first / last / last but one / middle key, clear) repeated 70 000 times on one pair/Vec deque, oracle after every op (lookups of the first 4 and the last 20 keys), stopped early once more than 64 items are live".to_string());
    rep.note(format!("C16: periodic unrollings: every cycle of 1..={} ops over {} ops (the alphabet plus rejected pushes, removals by rank from the back and from the middle) repeated {} times on one object (pair/SpyVec, pair/SmallVec4, whole/Vec; pair/SmallVec4 after nine pushes one op shorter); the same one op shorter with TWO deques alive and used alternately, each against its own map", cl_len, all_ops_cyc().len(), cl_reps));
    rep.note(format!("C16: {} non-initial start histories (tombstones then clear, two interior tombstones, emptied by pops, ...) each followed by all op sequences to depth {} (pair/SpyVec) / {} (whole/Vec); the cloning explorers copy the deque before every op (exactly-fitting capacity), the straight explorer re-executes all histories to depth {} on one object", prefixes().len(), depth - 1, depth - 2, depth - 2));
    rep.note(format!(
        "C16: closure over (physical length, consumed prefix, tombstone flags) with <= {} physical items reached a fix-point for both item conventions; DFS of all op sequences ({} ops incl. remove-by-rank) completed to depth {} (pair/SpyVec, whole/SpyVec, pair/SmallVec4) and {} (whole/Vec); debug_assertions={}",
        cap,
        all_ops().len(),
        depth,
        depth - 1,
        cfg!(debug_assertions)
    ));
    rep
}

pub fn replay(text: &str) -> Result<String, String> {
    let conv = field(text, "convention").unwrap_or("pair");
    let backing = field(text, "backing").unwrap_or("SpyVec");
    if field(text, "check") == Some("sorted-marathon") {
        let Some(cycle) = field(text, "cycle").and_then(parse_history) else {
            machinery_failure("cannot parse marathon cycle");
        };
        let reps: usize = field(text, "reps").and_then(|r| r.parse().ok()).unwrap_or(70_000);
        let mut st: St<Pair, Vec<Pair>> = St::new();
        let mut k = 0usize;
        for _ in 0..reps {
            for op in &cycle {
                k += 1;
                if let Err(e) = st.apply(*op, false) {
                    return Ok(format!("cycle [{}] repeated: step {}: {}", render(&cycle), k, e));
                }
            }
            if st.m.len() > 64 || st.counter > 1_000_000_000 {
                break;
            }
        }
        return Err(format!("cycle [{}] repeated agrees with the reference map", render(&cycle)));
    }
    if field(text, "check") == Some("sorted-twin") {
        let (Some(pa), Some(pb)) = (field(text, "history-a").and_then(parse_history), field(text, "history-b").and_then(parse_history)) else {
            machinery_failure("cannot parse twin histories");
        };
        let r = match (conv, backing) {
            ("whole", _) => run_twin::<Whole, Vec<Whole>>(&pa, &pb),
            _ => run_twin::<Pair, SpyVec<Pair>>(&pa, &pb),
        };
        return match r {
            Err(e) => Ok(format!("two deques used alternately: {}", e)),
            Ok(()) => Err("two deques used alternately: both agree with their reference maps".to_string()),
        };
    }
    let Some(hist) = field(text, "history") else {
        machinery_failure("no history in artefact");
    };
    let Some(ops) = parse_history(hist) else {
        machinery_failure("cannot parse history");
    };
    let mode = match field(text, "mode") {
        Some("straight") => Mode::Straight,
        _ => Mode::CloneBeforeEachOp,
    };
    let r = match (conv, backing) {
        ("whole", "Vec") => run_history::<Whole, Vec<Whole>>(&ops, mode),
        ("whole", _) => run_history::<Whole, SpyVec<Whole>>(&ops, mode),
        ("pair", "SmallVec4") => run_history::<Pair, SmallVec<[Pair; 4]>>(&ops, mode),
        _ => run_history::<Pair, SpyVec<Pair>>(&ops, mode),
    };
    match r {
        Err(e) => Ok(format!("[{}] {}", hist, e)),
        Ok(()) => Err(format!("[{}] agrees with the reference ordered map", hist)),
    }
}
