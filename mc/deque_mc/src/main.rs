//! deque_mc: explicit-state exploration of the real SlidingDeque / SortedDeque
//! against reference models (C15, C16).
mod sliding;
mod sorted;
mod spy;

use mc_core::*;

fn level(_prop: &str) -> &'static str {
    "model_checking"
}

fn rule(ctx: &Ctx) -> String {
    match ctx.prop.as_str() {
        "C15" => "closure: BFS to a fix-point over the abstract state (physical length, consumed prefix) of the real SlidingDeque<SpyVec> with logical length <= 8, every op of the 14-op alphabet applied to a clone of the real object in every state; plus stateless DFS of ALL op sequences to the depth in notes on Vec, SmallVec<[u32;2]> and SpyVec backings from empty and From<container> starts. evaluations = histories executed on the real code; states = distinct abstract states; non-trivial = histories containing at least one push and one front/back consumption.".into(),
        _ => "closure: BFS to a fix-point over (physical length, consumed prefix, tombstone flags) of the real SortedDeque<SpyVec> with <= 7 physical items for both item conventions; plus stateless DFS of ALL op sequences to the depth in notes. After every op: iter/first/last/is_empty and find() of every key ever pushed, its absent lower neighbour and one key above are compared with a BTreeMap; out-of-order pushes must panic. non-trivial = histories that removed an item from the middle.".into(),
    }
}

fn run(ctx: &Ctx) -> Report {
    match ctx.prop.as_str() {
        "C15" => sliding::run(ctx),
        "C16" => sorted::run(ctx),
        other => machinery_failure(&format!("deque_mc does not serve {}", other)),
    }
}

fn replay(ctx: &Ctx, text: &str) -> Result<String, String> {
    match ctx.prop.as_str() {
        "C15" => sliding::replay(text),
        "C16" => sorted::replay(text),
        other => machinery_failure(&format!("deque_mc does not serve {}", other)),
    }
}

fn assumptions(_ctx: &Ctx) -> Vec<String> {
    vec![
        "the deques never inspect element values (T: Copy, no Ord/Eq bound on SlidingDeque; SortedDeque only compares keys), so the closure over shapes extends to unbounded histories within the size cap".into(),
        "SpyVec (harness container implementing the public PushTruncateContainer trait) behaves like Vec".into(),
        "std VecDeque / BTreeMap as reference models".into(),
    ]
}

fn main() {
    // a runaway execution must die alone (see mc_core::limit_address_space)
    mc_core::limit_address_space(2 << 30);
    main_entry(Engine {
        name: "deque_mc",
        level,
        rule,
        run,
        replay,
        assumptions,
        decode_breadcrumb: None,
    });
}
