//! C15 — SlidingDeque == double-ended queue with a contiguous view.
use crate::spy::{last_spy, SpyVec};
use mc_core::*;
use sliding_deque::traits::PushTruncateContainer;
use sliding_deque::SlidingDeque;
use smallvec::SmallVec;
use std::collections::HashSet;
use std::collections::VecDeque;

#[derive(Clone, Copy, Debug, PartialEq, Eq)]
pub enum Op {
    Push,
    PopFront,
    PopBack,
    Adv0,
    Adv1,
    Adv2,
    AdvLen,
    AdvLen1,
    AdvMax,
    Clear,
    Slide,
    FrontMut,
    BackMut,
    IdxMut,
    /// advance(len - len/5): consume most of a large deque at once
    AdvMost,
    /// advance(len/2 + 1)
    AdvHalf1,
    /// `self.clone_from(&other)`: other holds 7 fresh items (nothing consumed)
    CloneFromLong,
    /// `self.clone_from(&other)`: other held 7 fresh items and consumed 2 of them from the front
    CloneFromPopped,
}

/// The alphabet of the statement plus the Clone entry points (`clone_from` reuses the destination).
pub const OPS_EXT: [Op; 16] = [
    Op::Push,
    Op::PopFront,
    Op::PopBack,
    Op::Adv0,
    Op::Adv1,
    Op::Adv2,
    Op::AdvLen,
    Op::AdvLen1,
    Op::AdvMax,
    Op::Clear,
    Op::Slide,
    Op::FrontMut,
    Op::BackMut,
    Op::IdxMut,
    Op::CloneFromLong,
    Op::CloneFromPopped,
];

/// Alphabet for the large-container family (thousands of items: byte-size thresholds such as a
/// page are crossed).
pub const OPS_BIG: [Op; 8] = [Op::Push, Op::PopFront, Op::PopBack, Op::Clear, Op::Slide, Op::Adv1, Op::AdvMost, Op::AdvHalf1];

pub const OPS: [Op; 14] = [
    Op::Push,
    Op::PopFront,
    Op::PopBack,
    Op::Adv0,
    Op::Adv1,
    Op::Adv2,
    Op::AdvLen,
    Op::AdvLen1,
    Op::AdvMax,
    Op::Clear,
    Op::Slide,
    Op::FrontMut,
    Op::BackMut,
    Op::IdxMut,
];

impl Op {
    pub fn name(self) -> &'static str {
        match self {
            Op::Push => "push_back",
            Op::PopFront => "pop_front",
            Op::PopBack => "pop_back",
            Op::Adv0 => "advance(0)",
            Op::Adv1 => "advance(1)",
            Op::Adv2 => "advance(2)",
            Op::AdvLen => "advance(len)",
            Op::AdvLen1 => "advance(len+1)",
            Op::AdvMax => "advance(MAX)",
            Op::Clear => "clear",
            Op::Slide => "slide",
            Op::FrontMut => "front_mut=",
            Op::BackMut => "back_mut=",
            Op::IdxMut => "deque[len/2]=",
            Op::AdvMost => "advance(len-len/5)",
            Op::AdvHalf1 => "advance(len/2+1)",
            Op::CloneFromLong => "clone_from(7 items)",
            Op::CloneFromPopped => "clone_from(7 items, 2 consumed)",
        }
    }
    pub fn parse(s: &str) -> Option<Op> {
        OPS_EXT.iter().chain(OPS_BIG.iter()).copied().find(|o| o.name() == s)
    }
}

pub trait Backing: PushTruncateContainer<Item = u32> + Clone + Default {
    const NAME: &'static str;
    const SPY: bool;
    fn from_items(items: &[u32]) -> Self;
}

impl Backing for Vec<u32> {
    const NAME: &'static str = "Vec";
    const SPY: bool = false;
    fn from_items(items: &[u32]) -> Self {
        items.to_vec()
    }
}
impl Backing for SmallVec<[u32; 2]> {
    const NAME: &'static str = "SmallVec2";
    const SPY: bool = false;
    fn from_items(items: &[u32]) -> Self {
        SmallVec::from_slice(items)
    }
}
impl Backing for SpyVec<u32> {
    const NAME: &'static str = "SpyVec";
    const SPY: bool = true;
    fn from_items(items: &[u32]) -> Self {
        SpyVec(items.to_vec())
    }
}

#[derive(Clone)]
pub struct State<C: Backing> {
    d: SlidingDeque<C>,
    m: VecDeque<u32>,
    next: u32,
    pushed: bool,
    consumed: bool,
}

impl<C: Backing> State<C> {
    pub fn new(seed_items: usize) -> Self {
        let items: Vec<u32> = (0..seed_items as u32).map(|i| 1000 + i).collect();
        let d: SlidingDeque<C> = if seed_items == 0 {
            SlidingDeque::new()
        } else {
            SlidingDeque::from(C::from_items(&items))
        };
        State {
            d,
            m: items.iter().copied().collect(),
            next: 1,
            pushed: seed_items > 0,
            consumed: false,
        }
    }

    /// (physical length, consumed prefix) — only for the spy backing.
    pub fn shape(&self) -> (usize, usize) {
        let view: &[u32] = &self.d;
        let (base, phys) = last_spy();
        let consumed = if phys == 0 {
            0
        } else {
            (view.as_ptr() as usize - base) / std::mem::size_of::<u32>()
        };
        (phys, consumed)
    }

    fn fresh(&mut self) -> u32 {
        self.next += 1;
        self.next
    }

    /// Applies `op` to the real deque and the model; compares return values.
    fn step(&mut self, op: Op) -> Result<(), String> {
        let len = self.m.len();
        let advance = |this: &mut Self, k: usize| -> Result<(), String> {
            let got = this.d.advance(k);
            let want = k.min(this.m.len());
            for _ in 0..want {
                this.m.pop_front();
            }
            if want > 0 {
                this.consumed = true;
            }
            if got != want {
                return Err(format!("advance({}) returned {} expected {}", k, got, want));
            }
            Ok(())
        };
        match op {
            Op::Push => {
                let v = self.fresh();
                self.d.push_back(v);
                self.m.push_back(v);
                self.pushed = true;
            }
            Op::PopFront => {
                let got = self.d.pop_front();
                let want = self.m.pop_front();
                self.consumed |= want.is_some();
                if got != want {
                    return Err(format!("pop_front returned {:?} expected {:?}", got, want));
                }
            }
            Op::PopBack => {
                let got = self.d.pop_back();
                let want = self.m.pop_back();
                self.consumed |= want.is_some();
                if got != want {
                    return Err(format!("pop_back returned {:?} expected {:?}", got, want));
                }
            }
            Op::Adv0 => advance(self, 0)?,
            Op::Adv1 => advance(self, 1)?,
            Op::Adv2 => advance(self, 2)?,
            Op::AdvLen => advance(self, len)?,
            Op::AdvLen1 => advance(self, len + 1)?,
            Op::AdvMax => advance(self, usize::MAX)?,
            Op::AdvMost => advance(self, len - len / 5)?,
            Op::AdvHalf1 => advance(self, len / 2 + 1)?,
            Op::Clear => {
                self.d.clear();
                self.m.clear();
            }
            Op::Slide => self.d.slide(),
            Op::FrontMut => {
                let v = self.fresh();
                match (self.d.front_mut(), self.m.front_mut()) {
                    (Some(a), Some(b)) => {
                        *a = v;
                        *b = v;
                    }
                    (None, None) => {}
                    (a, b) => {
                        return Err(format!(
                            "front_mut is_some={} expected {}",
                            a.is_some(),
                            b.is_some()
                        ))
                    }
                }
            }
            Op::BackMut => {
                let v = self.fresh();
                match (self.d.back_mut(), self.m.back_mut()) {
                    (Some(a), Some(b)) => {
                        *a = v;
                        *b = v;
                    }
                    (None, None) => {}
                    (a, b) => {
                        return Err(format!(
                            "back_mut is_some={} expected {}",
                            a.is_some(),
                            b.is_some()
                        ))
                    }
                }
            }
            Op::IdxMut => {
                if len > 0 {
                    let v = self.fresh();
                    if self.d.len() != len {
                        return Err(format!("len {} expected {}", self.d.len(), len));
                    }
                    self.d[len / 2] = v;
                    self.m[len / 2] = v;
                }
            }
            Op::CloneFromLong | Op::CloneFromPopped => {
                let items: Vec<u32> = (0..7).map(|_| self.fresh()).collect();
                let mut other: SlidingDeque<C> = SlidingDeque::from(C::from_items(&items));
                let mut want: VecDeque<u32> = items.iter().copied().collect();
                if op == Op::CloneFromPopped {
                    other.pop_front();
                    other.pop_front();
                    want.pop_front();
                    want.pop_front();
                }
                self.d.clone_from(&other);
                self.m = want;
                self.pushed = true;
            }
        }
        Ok(())
    }

    /// Compares every read-side view with the model, and checks the space bound.
    fn observe(&self) -> Result<(), String> {
        let view: &[u32] = &self.d;
        if !view.iter().eq(self.m.iter()) {
            return Err(format!(
                "slice view {:?} expected {:?}",
                view,
                self.m.iter().collect::<Vec<_>>()
            ));
        }
        if self.d.len() != self.m.len() || self.d.is_empty() != self.m.is_empty() {
            return Err(format!(
                "len/is_empty {} {} expected {} {}",
                self.d.len(),
                self.d.is_empty(),
                self.m.len(),
                self.m.is_empty()
            ));
        }
        if self.d.front() != self.m.front() || self.d.back() != self.m.back() {
            return Err(format!(
                "front/back {:?} {:?} expected {:?} {:?}",
                self.d.front(),
                self.d.back(),
                self.m.front(),
                self.m.back()
            ));
        }
        if C::SPY {
            let (phys, consumed) = self.shape();
            if phys - consumed != self.m.len() {
                return Err(format!(
                    "physical {} - consumed {} != len {}",
                    phys,
                    consumed,
                    self.m.len()
                ));
            }
            if consumed > phys / 2 {
                return Err(format!(
                    "space bound: consumed prefix {} exceeds half of the backing length {}",
                    consumed, phys
                ));
            }
        }
        Ok(())
    }

    /// One checked transition; any panic is a violation.
    pub fn apply(&mut self, op: Op) -> Result<(), String> {
        match catch(|| {
            self.step(op)?;
            self.observe()
        }) {
            Ok(r) => r,
            Err(p) => Err(format!("panic: {}", p)),
        }
    }

    pub fn nontrivial(&self) -> bool {
        self.pushed && self.consumed
    }
}

pub fn render(seed_items: usize, path: &[Op]) -> String {
    let mut parts = vec![format!("from({})", seed_items)];
    parts.extend(path.iter().map(|o| o.name().to_string()));
    parts.join("; ")
}

pub fn parse_history(text: &str) -> Option<(usize, Vec<Op>)> {
    let mut it = text.split(';').map(|s| s.trim());
    let first = it.next()?;
    let seed = first
        .strip_prefix("from(")?
        .strip_suffix(')')?
        .parse()
        .ok()?;
    let mut ops = Vec::new();
    for tok in it {
        if tok.is_empty() {
            continue;
        }
        ops.push(Op::parse(tok)?);
    }
    Some((seed, ops))
}

/// How the explorer reached a state.  The cloning explorers copy the parent state (the deque's
/// own `Clone`) before every op, which leaves the backing container with exactly-fitting capacity;
/// the straight explorer re-executes the history on one object, so capacities follow the
/// container's amortised growth.  Both are legitimate client histories, and code whose behaviour
/// depends on spare capacity behaves differently under them, so the replay must use the same one.
#[derive(Clone, Copy, PartialEq, Eq, Debug)]
pub enum Mode {
    CloneBeforeEachOp,
    Straight,
}

impl Mode {
    pub fn name(self) -> &'static str {
        match self {
            Mode::CloneBeforeEachOp => "clone-before-each-op",
            Mode::Straight => "straight",
        }
    }
}

/// Replays a history from scratch (no explorer).  Err = violation description.
pub fn run_history<C: Backing>(seed_items: usize, path: &[Op], mode: Mode) -> Result<(), String> {
    let mut st: State<C> = State::new(seed_items);
    if mode == Mode::Straight {
        st.apply(Op::Adv0)
            .map_err(|e| format!("initial state: {}", e))?;
    }
    for (i, op) in path.iter().enumerate() {
        if mode == Mode::CloneBeforeEachOp {
            st = st.clone();
        }
        st.apply(*op)
            .map_err(|e| format!("step {} ({}): {}", i + 1, op.name(), e))?;
    }
    Ok(())
}

fn violation<C: Backing>(rep: &mut Report, seed_items: usize, path: &[Op], err: &str, mode: Mode) {
    // Re-execute from the recorded history; it must reproduce.
    let again = run_history::<C>(seed_items, path, mode);
    if again.is_ok() {
        machinery_failure(&format!(
            "violation did not reproduce on replay: {} / {}",
            render(seed_items, path),
            err
        ));
    }
    let hist = render(seed_items, path);
    rep.violation(Violation {
        key: format!("C15:{}:{}", C::NAME, hist.replace(' ', "")),
        summary: format!("SlidingDeque<{}> after [{}] ({}): {}", C::NAME, hist, mode.name(), err),
        replay_text: format!(
            "check: sliding\nbacking: {}\nmode: {}\nhistory: {}\nobserved: {}\n",
            C::NAME,
            mode.name(),
            hist,
            err
        ),
    });
}

/// Closure: BFS to a fix-point over (physical length, consumed prefix), logical length <= cap.
pub fn closure(rep: &mut Report, cap: usize) -> HashSet<(usize, usize)> {
    type C = SpyVec<u32>;
    let mut seen: HashSet<(usize, usize)> = HashSet::new();
    let mut frontier: VecDeque<(State<C>, usize, Vec<Op>)> = VecDeque::new();
    for seed in 0..=cap {
        let st: State<C> = State::new(seed);
        if let Err(e) = run_history::<C>(seed, &[], Mode::Straight) {
            violation::<C>(rep, seed, &[], &e, Mode::Straight);
            continue;
        }
        if seen.insert(st.shape()) {
            frontier.push_back((st, seed, Vec::new()));
        }
    }
    while let Some((st, seed, path)) = frontier.pop_front() {
        for op in OPS_EXT {
            if op == Op::Push && st.m.len() >= cap {
                continue;
            }
            let mut next = st.clone();
            let mut npath = path.clone();
            npath.push(op);
            rep.transitions += 1;
            rep.count("closure_transitions", 1);
            match next.apply(op) {
                Err(e) => violation::<C>(rep, seed, &npath, &e, Mode::CloneBeforeEachOp),
                Ok(()) => {
                    rep.max_depth = rep.max_depth.max(npath.len() as u64);
                    let key = next.shape();
                    if seen.insert(key) {
                        frontier.push_back((next, seed, npath));
                    }
                }
            }
        }
    }
    for k in &seen {
        rep.state(hash_of(&("C15-shape", k)));
    }
    rep.count("closure_states", seen.len() as u64);
    seen
}

struct Dfs<'a, C: Backing> {
    rep: &'a mut Report,
    closure: Option<&'a HashSet<(usize, usize)>>,
    cap: usize,
    seed: usize,
    path: Vec<Op>,
    ops: &'static [Op],
    _c: std::marker::PhantomData<C>,
}

impl<C: Backing> Dfs<'_, C> {
    fn go(&mut self, st: &State<C>, depth_left: usize, within_cap: bool) {
        for op in self.ops.iter().copied() {
            let mut next = st.clone();
            self.path.push(op);
            self.rep.evaluations += 1;
            self.rep.transitions += 1;
            match next.apply(op) {
                Err(e) => {
                    let path = self.path.clone();
                    violation::<C>(self.rep, self.seed, &path, &e, Mode::CloneBeforeEachOp);
                }
                Ok(()) => {
                    if next.nontrivial() {
                        self.rep.nontrivial += 1;
                    }
                    if C::SPY {
                        let shape = next.shape();
                        // the closure bounds the logical length: only paths that stayed within the
                        // bound all along are covered by it
                        let within_cap = within_cap && next.m.len() <= self.cap;
                        if let Some(cl) = self.closure {
                            if within_cap && !cl.contains(&shape) {
                                machinery_failure(&format!(
                                    "abstraction unsound: DFS reached shape {:?} outside the closure via {}",
                                    shape,
                                    render(self.seed, &self.path)
                                ));
                            }
                        }
                    }
                    if self.rep.want_sample() {
                        let text = format!(
                            "SlidingDeque<{}>: {} => {:?}",
                            C::NAME,
                            render(self.seed, &self.path),
                            next.m
                        );
                        self.rep.sample(text);
                    }
                    if depth_left > 1 {
                        let within = within_cap && next.m.len() <= self.cap;
                        self.go(&next, depth_left - 1, within);
                    } else {
                        self.rep
                            .outcome(hash_of(&(next.m.len(), next.m.front().copied())));
                    }
                }
            }
            self.path.pop();
        }
    }
}

/// Depth-bounded DFS of all op sequences from `seed` items, partitioned on the first two ops.
pub fn dfs<C: Backing>(
    ctx: &Ctx,
    rep: &mut Report,
    closure: Option<&HashSet<(usize, usize)>>,
    cap: usize,
    seed: usize,
    depth: usize,
    unit_base: &mut usize,
    ops: &'static [Op],
) {
    let st0: State<C> = State::new(seed);
    for a in ops.iter().copied() {
        for b in ops.iter().copied() {
            let unit = *unit_base;
            *unit_base += 1;
            if !ctx.owns(unit) {
                continue;
            }
            let mut st = st0.clone();
            let mut path = vec![a];
            // The two-op prefix itself is explored (and judged) by whoever owns it.
            if b == ops[0] {
                rep.evaluations += 1;
                rep.transitions += 1;
            }
            if let Err(e) = st.apply(a) {
                if b == ops[0] {
                    violation::<C>(rep, seed, &path, &e, Mode::CloneBeforeEachOp);
                }
                continue;
            }
            path.push(b);
            rep.evaluations += 1;
            rep.transitions += 1;
            let mut st = st.clone();
            if let Err(e) = st.apply(b) {
                violation::<C>(rep, seed, &path, &e, Mode::CloneBeforeEachOp);
                continue;
            }
            if depth > 2 {
                let mut d = Dfs::<C> {
                    rep,
                    closure,
                    cap,
                    seed,
                    path,
                    ops,
                    _c: std::marker::PhantomData,
                };
                let within = st.m.len() <= cap && seed <= cap;
                d.go(&st, depth - 2, within);
            }
            rep.max_depth = rep.max_depth.max(depth as u64);
        }
    }
}

/// Depth-bounded enumeration of all op sequences executed on ONE object each (no clones):
/// every history is re-executed from scratch, so the backing container's capacity follows its
/// real growth policy.  Only the last op of each history is new, so only it is counted.
pub fn dfs_straight<C: Backing>(ctx: &Ctx, rep: &mut Report, seed: usize, depth: usize, unit_base: &mut usize, ops: &'static [Op]) {
    let n = ops.len();
    for len in 1..=depth {
        let total = n.pow(len as u32);
        let mut idx = 0usize;
        while idx < total {
            // partition on the first two ops (most significant digits)
            let block = if len >= 2 { n.pow((len - 2) as u32) } else { total };
            let unit = *unit_base + idx / block;
            if !ctx.owns(unit) {
                idx += block;
                continue;
            }
            for j in idx..idx + block {
                let mut path = Vec::with_capacity(len);
                let mut x = j;
                let mut digits = vec![0usize; len];
                for d in (0..len).rev() {
                    digits[d] = x % n;
                    x /= n;
                }
                for d in digits {
                    path.push(ops[d]);
                }
                rep.evaluations += 1;
                rep.transitions += len as u64;
                rep.count("straight_histories", 1);
                if let Err(e) = run_history::<C>(seed, &path, Mode::Straight) {
                    // report only if the failure is at the last step (shorter prefixes were reported at their own length)
                    if e.starts_with(&format!("step {} ", len)) {
                        violation::<C>(rep, seed, &path, &e, Mode::Straight);
                    }
                }
            }
            idx += block;
        }
        *unit_base += if len >= 2 { n * n } else { 1 };
    }
}


/// Two deques of the same type alive at once, ops applied alternately (a[0], b[0], a[1], b[1], ...):
/// whatever one instance does must leave the other one alone (state kept outside the objects - a
/// static, a thread-local, a shared scratch buffer - shows here and nowhere else).
pub fn run_twin<C: Backing>(seed_items: usize, pa: &[Op], pb: &[Op]) -> Result<(), String> {
    let mut a: State<C> = State::new(seed_items);
    let mut b: State<C> = State::new(seed_items);
    a.apply(Op::Adv0).map_err(|e| format!("initial state: {}", e))?;
    b.apply(Op::Adv0).map_err(|e| format!("initial state: {}", e))?;
    for i in 0..pa.len().max(pb.len()) {
        if let Some(op) = pa.get(i) {
            a.apply(*op).map_err(|e| format!("deque A step {} ({}): {}", i + 1, op.name(), e))?;
            b.observe().map_err(|e| format!("deque B after A's step {} ({}): {}", i + 1, op.name(), e))?;
        }
        if let Some(op) = pb.get(i) {
            b.apply(*op).map_err(|e| format!("deque B step {} ({}): {}", i + 1, op.name(), e))?;
            a.observe().map_err(|e| format!("deque A after B's step {} ({}): {}", i + 1, op.name(), e))?;
        }
    }
    Ok(())
}

/// Periodic unrollings on ONE object (or on two alternating ones): every cycle of 1..=max_len ops,
/// repeated `reps` times.  Reaches what the depth bound and the size-capped closure cannot: the N-th
/// occurrence of an event, container growth across size classes, counters and thresholds.
pub fn cycles<C: Backing>(ctx: &Ctx, rep: &mut Report, seed: usize, max_len: usize, reps: usize, unit_base: &mut usize, ops: &'static [Op], twin: bool) {
    let n = ops.len();
    let mut count = 0u64;
    for len in 1..=max_len {
        for c in 0..n.pow(len as u32) {
            let u = *unit_base + c % 4096;
            if !ctx.owns(u) {
                continue;
            }
            let mut x = c;
            let mut cycle: Vec<Op> = Vec::with_capacity(len);
            for _ in 0..len {
                cycle.push(ops[x % n]);
                x /= n;
            }
            if (1..len).any(|d| len % d == 0 && (0..len).all(|i| cycle[i] == cycle[i % d])) {
                continue;
            }
            let path: Vec<Op> = (0..len * reps).map(|i| cycle[i % len]).collect();
            count += 1;
            rep.evaluations += 1;
            rep.transitions += path.len() as u64 * if twin { 2 } else { 1 };
            if !twin {
                if let Err(e) = run_history::<C>(seed, &path, Mode::Straight) {
                    // cut the history at the failing step
                    let at = e.strip_prefix("step ").and_then(|r| r.split(' ').next()).and_then(|k| k.parse::<usize>().ok()).unwrap_or(path.len());
                    let cut = &path[..at.min(path.len())];
                    let e2 = run_history::<C>(seed, cut, Mode::Straight).err().unwrap_or(e);
                    violation::<C>(rep, seed, cut, &e2, Mode::Straight);
                }
            } else {
                // B runs the same cycle one op ahead
                let pb: Vec<Op> = (0..len * reps).map(|i| cycle[(i + 1) % len]).collect();
                if let Err(e) = run_twin::<C>(seed, &path, &pb) {
                    if run_twin::<C>(seed, &path, &pb).err().as_ref() != Some(&e) {
                        machinery_failure(&format!("twin violation did not reproduce identically: {}", e));
                    }
                    let (ha, hb) = (render(seed, &path), render(seed, &pb));
                    rep.violation(Violation {
                        key: format!("C15:twin:{}:{}", C::NAME, render(seed, &cycle).replace(' ', "")),
                        summary: format!("two SlidingDeque<{}> used alternately, cycle [{}] x {} (B one op ahead): {}", C::NAME, render(seed, &cycle), reps, e),
                        replay_text: format!("check: sliding-twin\nbacking: {}\nhistory-a: {}\nhistory-b: {}\nobserved: {}\n", C::NAME, ha, hb, e),
                    });
                }
            }
        }
        *unit_base += 4096;
    }
    rep.count(if twin { "twin_cycles_unrolled" } else { "cycles_unrolled" }, count);
}

/// Marathons: every cycle of 1..=max_len ops over the 14-op alphabet repeated 70 000 times on one
/// object (stopped early if the deque outgrows 64 live elements: a cycle that only grows meets no
/// new event), oracle after every op.  The 65 536th occurrence of an event - a slide, a wrap of the
/// cursor, an increment of a narrow counter - lies within reach.
pub fn marathon<C: Backing>(ctx: &Ctx, rep: &mut Report, seed_items: usize, max_len: usize, reps: usize, unit_base: &mut usize) {
    let ops = &OPS;
    let n = ops.len();
    let mut count = 0u64;
    for len in 1..=max_len {
        for c in 0..n.pow(len as u32) {
            if !ctx.owns(*unit_base + c % 4096) {
                continue;
            }
            let mut x = c;
            let mut cycle: Vec<Op> = Vec::with_capacity(len);
            for _ in 0..len {
                cycle.push(ops[x % n]);
                x /= n;
            }
            if (1..len).any(|d| len % d == 0 && (0..len).all(|i| cycle[i] == cycle[i % d])) {
                continue;
            }
            count += 1;
            rep.evaluations += 1;
            let mut st: State<C> = State::new(seed_items);
            let mut steps = 0usize;
            let mut failure: Option<String> = None;
            'run: for _ in 0..reps {
                for op in &cycle {
                    steps += 1;
                    if let Err(e) = st.apply(*op) {
                        failure = Some(e);
                        break 'run;
                    }
                }
                if st.m.len() > 64 {
                    break;
                }
            }
            rep.transitions += steps as u64;
            if let Some(e) = failure {
                // the artefact names the cycle and the step; replaying it re-runs the marathon
                let again = {
                    let mut st: State<C> = State::new(seed_items);
                    let mut r: Result<(), String> = Ok(());
                    let mut k = 0usize;
                    'again: for _ in 0..reps {
                        for op in &cycle {
                            k += 1;
                            if let Err(e) = st.apply(*op) {
                                r = Err(e);
                                break 'again;
                            }
                        }
                    }
                    (r, k)
                };
                if again.0.as_ref().err() != Some(&e) || again.1 != steps {
                    machinery_failure(&format!("marathon violation did not reproduce identically: cycle [{}] step {}: {}", render(0, &cycle), steps, e));
                }
                rep.violation(Violation {
                    key: format!("C15:marathon:{}:{}", C::NAME, render(seed_items, &cycle).replace(' ', "")),
                    summary: format!("SlidingDeque<{}>, cycle [{}] repeated: at step {} (repetition {}): {}", C::NAME, render(seed_items, &cycle), steps, (steps - 1) / len + 1, e),
                    replay_text: format!("check: sliding-marathon\nbacking: {}\ncycle: {}\nreps: {}\nobserved: step {}: {}\n", C::NAME, render(seed_items, &cycle), reps, steps, e),
                });
            }
        }
        *unit_base += 4096;
    }
    rep.count("marathon_cycles", count);
}

/// Replays a marathon artefact.
pub fn replay_marathon<C: Backing>(seed_items: usize, cycle: &[Op], reps: usize) -> Result<(), String> {
    let mut st: State<C> = State::new(seed_items);
    let mut k = 0usize;
    for _ in 0..reps {
        for op in cycle {
            k += 1;
            st.apply(*op).map_err(|e| format!("step {}: {}", k, e))?;
        }
        if st.m.len() > 64 {
            break;
        }
    }
    Ok(())
}

/// Zero-sized items: a `SlidingDeque<Vec<()>>` built from a vector of up to usize::MAX elements is
/// legal (no memory is involved), and its cursor arithmetic runs at the top of the usize range.
/// All op sequences to `depth` over pushes, pops, advances by 1 / half / half+1 / half+2 / MAX,
/// slide and clear from three huge initial lengths, against a counter model.
#[derive(Clone, Copy, Debug, PartialEq, Eq)]
pub enum Z {
    Push,
    PopFront,
    PopBack,
    Adv1,
    AdvHalf,
    AdvHalf1,
    AdvHalf2,
    AdvMax,
    Slide,
    Clear,
}
pub const ZOPS: [Z; 10] = [Z::Push, Z::PopFront, Z::PopBack, Z::Adv1, Z::AdvHalf, Z::AdvHalf1, Z::AdvHalf2, Z::AdvMax, Z::Slide, Z::Clear];

pub fn zst_run_one(start: usize, path: &[Z]) -> Result<(), String> {
    let r = catch(|| -> Result<(), String> {
        let mut d: SlidingDeque<Vec<()>> = SlidingDeque::from(vec![(); start]);
        let mut len: usize = start;
        // upper bound on the backing vector's physical length (consumed elements may still be in
        // it): a Vec cannot hold more than usize::MAX elements, and running into that limit is
        // resource exhaustion, not a property violation
        let mut phys_ub: usize = start;
        let half = start / 2;
        for (i, op) in path.iter().enumerate() {
            let at = |m: String| format!("step {} ({:?}): {}", i + 1, op, m);
            match op {
                Z::Push => {
                    if phys_ub == usize::MAX {
                        continue; // the backing vector may be full
                    }
                    d.push_back(());
                    len += 1;
                    phys_ub += 1;
                }
                Z::PopFront | Z::PopBack => {
                    let got = if *op == Z::PopFront { d.pop_front() } else { d.pop_back() };
                    let want = if len > 0 { Some(()) } else { None };
                    if got != want {
                        return Err(at(format!("returned {:?} expected {:?}", got, want)));
                    }
                    len -= want.is_some() as usize;
                    if *op == Z::PopBack && want.is_some() {
                        phys_ub -= 1;
                    }
                }
                Z::Adv1 | Z::AdvHalf | Z::AdvHalf1 | Z::AdvHalf2 | Z::AdvMax => {
                    let k = match op {
                        Z::Adv1 => 1,
                        Z::AdvHalf => half,
                        Z::AdvHalf1 => half + 1,
                        Z::AdvHalf2 => half + 2,
                        _ => usize::MAX,
                    };
                    let got = d.advance(k);
                    let want = k.min(len);
                    if got != want {
                        return Err(at(format!("advance returned {} expected {}", got, want)));
                    }
                    len -= want;
                }
                Z::Slide => d.slide(),
                Z::Clear => {
                    d.clear();
                    len = 0;
                    phys_ub = 0;
                }
            }
            if d.len() != len || d.is_empty() != (len == 0) {
                return Err(at(format!("len() = {} expected {}", d.len(), len)));
            }
        }
        Ok(())
    });
    match r {
        Ok(r) => r,
        Err(p) => Err(format!("panic: {}", p)),
    }
}

pub fn zst_family(ctx: &Ctx, rep: &mut Report, depth: usize, unit_base: &mut usize) {
    let starts: [usize; 3] = [usize::MAX, usize::MAX - 1, (isize::MAX as usize) + 1];
    let n = ZOPS.len();
    for start in starts {
        for len in 1..=depth {
            let u = *unit_base;
            *unit_base += 1;
            if !ctx.owns(u) {
                continue;
            }
            for j in 0..n.pow(len as u32) {
                let mut x = j;
                let mut path = vec![Z::Push; len];
                for d in (0..len).rev() {
                    path[d] = ZOPS[x % n];
                    x /= n;
                }
                rep.evaluations += 1;
                rep.transitions += len as u64;
                rep.count("zst_histories", 1);
                if let Err(e) = zst_run_one(start, &path) {
                    if !(e.starts_with(&format!("step {} ", len)) || e.starts_with("panic")) {
                        continue;
                    }
                    if e.starts_with("panic") && len > 1 && zst_run_one(start, &path[..len - 1]).is_err() {
                        continue; // reported at the shorter history
                    }
                    if zst_run_one(start, &path).is_ok() {
                        machinery_failure("C15 zero-sized violation did not reproduce");
                    }
                    let hist = format!("{:?}", path);
                    rep.violation(Violation {
                        key: format!("C15:zst:{}:{}", start, hist.replace(' ', "")),
                        summary: format!("SlidingDeque<Vec<()>> of {} zero-sized items after {}: {}", start, hist, e),
                        replay_text: format!("check: sliding-zst\nstart: {}\nhistory: {}\nobserved: {}\n", start, hist, e),
                    });
                }
            }
        }
    }
    rep.note(format!("C15: zero-sized items: SlidingDeque<Vec<()>> from vectors of usize::MAX, usize::MAX - 1 and isize::MAX + 1 elements, all sequences to depth {} over {:?} against a counter model (cursor arithmetic at the top of the usize range)", depth, ZOPS));
}

pub fn run(ctx: &Ctx) -> Report {
    let mut rep = Report::new();
    // logical lengths up to 24: containers both below and above the 64-byte mark for u32 items
    let cap = 24;
    // Every worker computes the (tiny) closure; only worker 0 reports its counts.
    let mut scratch = Report::new();
    let cl = closure(&mut scratch, cap);
    // (an incomplete closure - one that met violations - cannot vouch for the shapes the DFS reaches)
    let closure_complete = scratch.violations.is_empty();
    if ctx.owns(0) {
        scratch.evaluations = scratch.transitions;
        rep.merge(scratch);
    } else {
        // violations found by the closure are reported once, by worker 0
    }
    let depth = ctx.tier.pick(7, 8);
    let mut unit = 0usize;
    // Fresh deque, three backings.
    dfs::<SpyVec<u32>>(ctx, &mut rep, if closure_complete { Some(&cl) } else { None }, cap, 0, depth, &mut unit, &OPS);
    dfs::<Vec<u32>>(ctx, &mut rep, None, cap, 0, depth, &mut unit, &OPS);
    dfs::<SmallVec<[u32; 2]>>(ctx, &mut rep, None, cap, 0, depth, &mut unit, &OPS);
    // the same plus the Clone entry points (clone_from into a deque with history), one level shallower
    dfs::<SpyVec<u32>>(ctx, &mut rep, None, cap, 0, depth - 1, &mut unit, &OPS_EXT);
    dfs::<SmallVec<[u32; 2]>>(ctx, &mut rep, None, cap, 0, depth - 1, &mut unit, &OPS_EXT);
    // Non-initial starts: From<container> with 3 and 5 items, one level shallower.
    for seed in [3usize, 5] {
        dfs::<SpyVec<u32>>(ctx, &mut rep, if closure_complete { Some(&cl) } else { None }, cap, seed, depth - 1, &mut unit, &OPS);
        dfs::<SmallVec<[u32; 2]>>(ctx, &mut rep, None, cap, seed, depth - 1, &mut unit, &OPS);
        dfs::<SpyVec<u32>>(ctx, &mut rep, None, cap, seed, depth - 2, &mut unit, &OPS_EXT);
        dfs::<SmallVec<[u32; 2]>>(ctx, &mut rep, None, cap, seed, depth - 2, &mut unit, &OPS_EXT);
    }
    // The same alphabet without clones (capacities follow the container's growth policy), one level shallower.
    dfs_straight::<Vec<u32>>(ctx, &mut rep, 0, depth - 2, &mut unit, &OPS);
    dfs_straight::<SmallVec<[u32; 2]>>(ctx, &mut rep, 0, depth - 2, &mut unit, &OPS);
    dfs_straight::<SmallVec<[u32; 2]>>(ctx, &mut rep, 3, depth - 2, &mut unit, &OPS);
    // clone_from into a destination with its own history needs the straight explorer (a copied
    // destination has no history left if Clone compacts)
    dfs_straight::<Vec<u32>>(ctx, &mut rep, 5, depth - 3, &mut unit, &OPS_EXT);
    dfs_straight::<SmallVec<[u32; 2]>>(ctx, &mut rep, 5, depth - 3, &mut unit, &OPS_EXT);
    dfs_straight::<Vec<u32>>(ctx, &mut rep, 0, depth - 2, &mut unit, &OPS_EXT);
    zst_family(ctx, &mut rep, ctx.tier.pick(4, 5), &mut unit);
    // large containers (4 KiB .. 20 KiB of items), every sequence over the 8-op alphabet, on one object
    for seed in [1024usize, 1500, 5000] {
        dfs_straight::<Vec<u32>>(ctx, &mut rep, seed, ctx.tier.pick(4, 5), &mut unit, &OPS_BIG);
        dfs_straight::<SmallVec<[u32; 2]>>(ctx, &mut rep, seed, ctx.tier.pick(4, 5), &mut unit, &OPS_BIG);
    }
    // periodic unrollings (one object), and two objects used alternately
    let (cl_len, cl_reps) = (ctx.tier.pick(4, 5), ctx.tier.pick(40, 100));
    cycles::<SpyVec<u32>>(ctx, &mut rep, 0, cl_len, cl_reps, &mut unit, &OPS_EXT, false);
    cycles::<Vec<u32>>(ctx, &mut rep, 0, cl_len, cl_reps, &mut unit, &OPS_EXT, false);
    cycles::<SmallVec<[u32; 2]>>(ctx, &mut rep, 0, cl_len, cl_reps, &mut unit, &OPS_EXT, false);
    cycles::<SmallVec<[u32; 2]>>(ctx, &mut rep, 3, cl_len - 1, cl_reps, &mut unit, &OPS_EXT, false);
    cycles::<Vec<u32>>(ctx, &mut rep, 1024, cl_len - 1, cl_reps, &mut unit, &OPS_BIG, false);
    cycles::<SpyVec<u32>>(ctx, &mut rep, 0, cl_len - 1, cl_reps, &mut unit, &OPS_EXT, true);
    cycles::<SmallVec<[u32; 2]>>(ctx, &mut rep, 3, cl_len - 1, cl_reps, &mut unit, &OPS_EXT, true);
    marathon::<Vec<u32>>(ctx, &mut rep, 0, ctx.tier.pick(2, 3), 70_000, &mut unit);
    marathon::<SmallVec<[u32; 2]>>(ctx, &mut rep, 0, 2, 70_000, &mut unit);
    // a steady state with live elements: every pop_front leaves a consumed prefix behind, every other one slides
    marathon::<Vec<u32>>(ctx, &mut rep, 3, 2, 70_000, &mut unit);
    marathon::<Vec<u32>>(ctx, &mut rep, 6, 2, 70_000, &mut unit);
    rep.note(format!("C15: marathons: every cycle of 1..={} ops over the 14-op alphabet repeated 70 000 times on one Vec-backed deque (cycles of up to 2 ops on SmallVec, and from From<container> starts of 3 and 6 items), oracle after every op, stopped early once more than 64 elements are live", ctx.tier.pick(2, 3)));
    rep.note(format!("C15: periodic unrollings: every cycle of 1..={} ops over the 16-op alphabet repeated {} times on one object (SpyVec, Vec, SmallVec from empty; SmallVec from 3 items and Vec from 1024 items one op shorter), oracle after every op; the same with TWO deques alive and used alternately (the second one op ahead in the cycle), each against its own model", cl_len, cl_reps));
    rep.note(format!("C15: large containers: From<container> with 1024, 1500 and 5000 items (Vec and spilled SmallVec), all sequences to depth {} over {:?}", ctx.tier.pick(4, 5), OPS_BIG.iter().map(|o| o.name()).collect::<Vec<_>>()));
    rep.note(format!("C15: the cloning explorers copy the deque before every op (exactly-fitting capacity, so every push meets a full container); the straight explorer re-executes all histories to depth {} on one object (amortised capacities)", depth - 2));
    rep.note(format!(
        "C15: closure over (physical length, consumed prefix) with logical length <= {} reached a fix-point; DFS of all {}-op sequences completed to depth {} (fresh) / {} (From<container> with 3 and 5 items) on Vec, SmallVec<[u32;2]> and SpyVec backings, and of the 16-op alphabet with clone_from one / two levels shallower; debug_assertions={}",
        cap,
        OPS.len(),
        depth,
        depth - 1,
        cfg!(debug_assertions)
    ));
    rep
}

pub fn replay(text: &str) -> Result<String, String> {
    if field(text, "check") == Some("sliding-zst") {
        let start: usize = field(text, "start").and_then(|x| x.trim().parse().ok()).unwrap_or(usize::MAX);
        let hist = field(text, "history").unwrap_or("");
        let mut path = Vec::new();
        for tok in hist.trim_matches(|c| c == '[' || c == ']').split(',').map(|t| t.trim()).filter(|t| !t.is_empty()) {
            match ZOPS.iter().copied().find(|z| format!("{:?}", z) == tok) {
                Some(z) => path.push(z),
                None => machinery_failure("cannot parse zero-sized history"),
            }
        }
        return match zst_run_one(start, &path) {
            Err(e) => Ok(format!("{} zero-sized items, {}: {}", start, hist, e)),
            Ok(()) => Err(format!("{} zero-sized items, {}: agrees with the counter model", start, hist)),
        };
    }
    if field(text, "check") == Some("sliding-marathon") {
        let backing = field(text, "backing").unwrap_or("Vec");
        let Some((seed_items, cycle)) = field(text, "cycle").and_then(parse_history) else {
            machinery_failure("cannot parse marathon cycle");
        };
        let reps: usize = field(text, "reps").and_then(|r| r.parse().ok()).unwrap_or(70_000);
        let r = match backing {
            "SmallVec2" => replay_marathon::<SmallVec<[u32; 2]>>(seed_items, &cycle, reps),
            _ => replay_marathon::<Vec<u32>>(seed_items, &cycle, reps),
        };
        return match r {
            Err(e) => Ok(format!("cycle [{}] repeated: {}", render(0, &cycle), e)),
            Ok(()) => Err(format!("cycle [{}] repeated {} times agrees with the reference deque", render(0, &cycle), reps)),
        };
    }
    if field(text, "check") == Some("sliding-twin") {
        let backing = field(text, "backing").unwrap_or("SpyVec");
        let (Some((seed, pa)), Some((_, pb))) = (field(text, "history-a").and_then(parse_history), field(text, "history-b").and_then(parse_history)) else {
            machinery_failure("cannot parse twin histories");
        };
        let r = match backing {
            "Vec" => run_twin::<Vec<u32>>(seed, &pa, &pb),
            "SmallVec2" => run_twin::<SmallVec<[u32; 2]>>(seed, &pa, &pb),
            _ => run_twin::<SpyVec<u32>>(seed, &pa, &pb),
        };
        return match r {
            Err(e) => Ok(format!("two deques used alternately: {}", e)),
            Ok(()) => Err("two deques used alternately: both agree with their reference deques".to_string()),
        };
    }
    let backing = field(text, "backing").unwrap_or("SpyVec");
    let hist = field(text, "history").ok_or_else(|| "no history in artefact".to_string());
    let hist = match hist {
        Ok(h) => h,
        Err(e) => machinery_failure(&e),
    };
    let Some((seed, ops)) = parse_history(hist) else {
        machinery_failure("cannot parse history");
    };
    let mode = match field(text, "mode") {
        Some("clone-before-each-op") => Mode::CloneBeforeEachOp,
        _ => Mode::Straight,
    };
    let r = match backing {
        "Vec" => run_history::<Vec<u32>>(seed, &ops, mode),
        "SmallVec2" => run_history::<SmallVec<[u32; 2]>>(seed, &ops, mode),
        _ => run_history::<SpyVec<u32>>(seed, &ops, mode),
    };
    match r {
        Err(e) => Ok(format!("[{}] {}", hist, e)),
        Ok(()) => Err(format!("[{}] agrees with the reference deque", hist)),
    }
}
