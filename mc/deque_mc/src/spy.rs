//! A `PushTruncateContainer` (public trait of `sliding_deque`) that wraps a
//! `Vec` and publishes its base pointer and physical length in a thread-local
//! whenever the deque touches it.  Because `Deref for SlidingDeque` goes
//! through `container.slice()`, evaluating `&*deque` updates the thread-local
//! for *that* deque, and `consumed_prefix = (view.as_ptr() - base) / size_of<T>`
//! becomes observable without any hook in the repository.
use sliding_deque::traits::PushTruncateContainer;
use std::cell::Cell;

thread_local! {
    static SPY: Cell<(usize, usize)> = const { Cell::new((0, 0)) };
}

#[derive(Clone, Debug)]
pub struct SpyVec<T: Copy>(pub Vec<T>);

impl<T: Copy> Default for SpyVec<T> {
    fn default() -> Self {
        SpyVec(Vec::new())
    }
}

impl<T: Copy> SpyVec<T> {
    #[inline(always)]
    fn publish(&self) {
        SPY.with(|c| c.set((self.0.as_ptr() as usize, self.0.len())));
    }
}

/// (base address, physical length) of the SpyVec most recently touched on this thread.
pub fn last_spy() -> (usize, usize) {
    SPY.with(|c| c.get())
}

impl<T: Copy> PushTruncateContainer for SpyVec<T> {
    type Item = T;

    fn push(&mut self, value: T) {
        self.0.push(value);
        self.publish();
    }
    fn pop(&mut self) -> Option<T> {
        let ret = self.0.pop();
        self.publish();
        ret
    }
    fn truncate(&mut self, len: usize) {
        self.0.truncate(len);
        self.publish();
    }
    fn slice(&self) -> &[T] {
        self.publish();
        &self.0
    }
    fn slice_mut(&mut self) -> &mut [T] {
        self.publish();
        &mut self.0
    }
}
