//! C11 — Rough TLV round trip and layout.
use mc_core::*;
use owning_iovec::OwningIovec;
use owning_iovec::ZeroCopySink;
use rough_tlv::MessageView;
use rough_tlv::MessageWrapper;
use rough_tlv::Tag;
use rough_tlv::ToRoughTLV;
use std::borrow::Cow;

pub const TAGS: [u32; 6] = [0, 1, 0xFF, 0x100, 0x0100_0000, 0xFFFF_FFFF];
pub const LENS: [usize; 3] = [0, 1, 5];

static PAYLOAD: [u8; 64] = {
    let mut a = [0u8; 64];
    let mut i = 0;
    while i < 64 {
        a[i] = 0x40 + i as u8; // '@', 'A', ... valid ASCII so &str values work
        i += 1;
    }
    a
};

/// Value bytes for pair number `idx` of length `len` (distinct per pair).
/// A coded length stands for a value with particular CONTENTS (values are opaque bytes: nothing may
/// depend on what they hold): 10_000_000 + class * 1000 + n = n bytes, class 0 all zeros, 1 zeros
/// with a non-zero last byte, 2 all 0xFF, 3 zeros with a non-zero first byte, 4 zeros with non-zero
/// bytes in the last (n % 8) positions only when n % 8 != 0 (else like class 1).
pub const CONTENT_BASE: usize = 10_000_000;
pub fn content_len(class: usize, n: usize) -> usize {
    CONTENT_BASE + class * 1000 + n
}

fn value_bytes(idx: usize, len: usize) -> &'static [u8] {
    if len >= CONTENT_BASE {
        let (class, n) = ((len - CONTENT_BASE) / 1000, (len - CONTENT_BASE) % 1000);
        let mut v = vec![if class == 2 { 0xFFu8 } else { 0u8 }; n];
        if n > 0 {
            match class {
                1 => v[n - 1] = 0x41 + idx as u8,
                3 => v[0] = 0x41 + idx as u8,
                4 => {
                    let tail = if n % 8 == 0 { 1 } else { n % 8 };
                    for b in v[n - tail..].iter_mut() {
                        *b = 0x61 + idx as u8;
                    }
                }
                _ => {}
            }
        }
        return Box::leak(v.into_boxed_slice());
    }
    if len <= 8 {
        return &PAYLOAD[idx * 7..idx * 7 + len];
    }
    // big values (ASCII, so &str kinds work): a 400 000-byte pattern, offset by the pair number
    static BIG: std::sync::OnceLock<Vec<u8>> = std::sync::OnceLock::new();
    let big = BIG.get_or_init(|| (0..400_000usize).map(|i| 0x21 + (i % 89) as u8).collect());
    &big[idx * 13..idx * 13 + len]
}

/// Value lengths around the 64 KiB mark (copied values may be fed to the sink in pieces).
pub const BIG_LENS: [usize; 7] = [65_535, 65_536, 65_537, 100_000, 131_072, 131_073, 200_000];

/// Independent layout function: count, N-1 cumulative ends, tags stably
/// sorted by little-endian value (or given order when `presorted`), values.
pub fn layout(pairs: &[(u32, Vec<u8>)], presorted: bool) -> Vec<u8> {
    let mut order: Vec<usize> = (0..pairs.len()).collect();
    if !presorted {
        // stable insertion sort by tag value
        for i in 1..order.len() {
            let mut j = i;
            while j > 0 && pairs[order[j - 1]].0 > pairs[order[j]].0 {
                order.swap(j - 1, j);
                j -= 1;
            }
        }
    }
    let mut out = Vec::new();
    out.extend_from_slice(&(pairs.len() as u32).to_le_bytes());
    let mut acc = 0u32;
    for (rank, idx) in order.iter().enumerate() {
        if rank > 0 {
            out.extend_from_slice(&acc.to_le_bytes());
        }
        acc += pairs[*idx].1.len() as u32;
    }
    for idx in &order {
        out.extend_from_slice(&pairs[*idx].0.to_le_bytes());
    }
    for idx in &order {
        out.extend_from_slice(&pairs[*idx].1);
    }
    out
}

fn sorted_pairs(pairs: &[(u32, Vec<u8>)], presorted: bool) -> Vec<(u32, Vec<u8>)> {
    let mut v = pairs.to_vec();
    if !presorted {
        v.sort_by_key(|p| p.0); // stable
    }
    v
}

#[derive(Clone, Copy, Debug, PartialEq, Eq)]
pub enum Kind {
    Slice,
    Str,
    CowBytes, // per-pair borrowed/owned mask
    CowStr,
    Nested, // each value is itself a message (of &[u8] values)
    View,   // each value is a MessageView over an encoded inner message
}
pub const KINDS: [Kind; 6] = [Kind::Slice, Kind::Str, Kind::CowBytes, Kind::CowStr, Kind::Nested, Kind::View];

#[derive(Clone, Copy, Debug, PartialEq, Eq)]
pub enum Ctor {
    New,
    FromSlice,
    FromSorted,
}
pub const CTORS: [Ctor; 3] = [Ctor::New, Ctor::FromSlice, Ctor::FromSorted];

#[derive(Clone, Copy, Debug, PartialEq, Eq)]
pub enum SinkKind {
    Iovec,
    IovecReborrow,
    Hcobs,
}
pub const SINKS: [SinkKind; 3] = [SinkKind::Iovec, SinkKind::IovecReborrow, SinkKind::Hcobs];

#[derive(Clone, Debug)]
pub struct Case {
    pub kind: Kind,
    pub ctor: Ctor,
    pub sink: SinkKind,
    pub tags: Vec<u32>,
    pub lens: Vec<usize>,
    pub cow_mask: u32,
}

impl Case {
    pub fn render(&self) -> String {
        format!(
            "kind={:?} ctor={:?} sink={:?} tags={:x?} lens={:?} cow_mask={}",
            self.kind, self.ctor, self.sink, self.tags, self.lens, self.cow_mask
        )
    }
    pub fn parse(text: &str) -> Option<Case> {
        let get = |name: &str| -> Option<String> {
            let start = text.find(&format!("{}=", name))? + name.len() + 1;
            let rest = &text[start..];
            let end = if rest.starts_with('[') {
                rest.find(']')? + 1
            } else {
                rest.find(' ').unwrap_or(rest.len())
            };
            Some(rest[..end].to_string())
        };
        let list = |s: String, radix: u32| -> Option<Vec<u64>> {
            let inner = s.trim_start_matches('[').trim_end_matches(']');
            if inner.trim().is_empty() {
                return Some(vec![]);
            }
            inner.split(',').map(|x| u64::from_str_radix(x.trim(), radix).ok()).collect()
        };
        Some(Case {
            kind: KINDS.iter().copied().find(|k| format!("{:?}", k) == get("kind").unwrap_or_default())?,
            ctor: CTORS.iter().copied().find(|k| format!("{:?}", k) == get("ctor").unwrap_or_default())?,
            sink: SINKS.iter().copied().find(|k| format!("{:?}", k) == get("sink").unwrap_or_default())?,
            tags: list(get("tags")?, 16)?.into_iter().map(|x| x as u32).collect(),
            lens: list(get("lens")?, 10)?.into_iter().map(|x| x as usize).collect(),
            cow_mask: get("cow_mask")?.parse().ok()?,
        })
    }
}

/// Emits `msg` into the chosen sink and returns the flat bytes.
fn emit<'a, V: ToRoughTLV<'a>>(msg: &V, sink: SinkKind) -> Result<Vec<u8>, String> {
    match sink {
        SinkKind::Iovec => {
            let mut iov = OwningIovec::new();
            msg.to_rough_tlv(&mut iov);
            iov.flatten().map_err(|_| "iovec has pending backrefs".to_string())
        }
        SinkKind::IovecReborrow => {
            let mut iov = OwningIovec::new();
            {
                let mut reborrow = &mut iov;
                fn through<'d, S: ZeroCopySink<'d>, V2: for<'x> FnOnce(&mut S)>(s: &mut S, f: V2) {
                    f(s)
                }
                let _ = &mut reborrow;
                through(&mut reborrow, |s| msg.to_rough_tlv(s));
            }
            iov.flatten().map_err(|_| "iovec has pending backrefs".to_string())
        }
        SinkKind::Hcobs => {
            let mut enc = hcobs::Encoder::new();
            msg.to_rough_tlv(&mut enc);
            let encoded = enc.finish().flatten().map_err(|_| "encoder output has pending backrefs".to_string())?;
            let mut dec = hcobs::Decoder::new();
            dec.decode_copy(&encoded).map_err(|e| format!("hcobs decode failed: {}", e))?;
            let out = dec.finish().map_err(|e| format!("hcobs finish failed: {}", e))?;
            out.flatten().map_err(|_| "decoder output has pending backrefs".to_string())
        }
    }
}

/// Checks the emitted bytes against the layout, the length, and the view.
fn judge(bytes: &[u8], claimed_len: usize, pairs: &[(u32, Vec<u8>)], presorted: bool) -> Result<(), String> {
    let want = layout(pairs, presorted);
    if bytes != want.as_slice() {
        return Err(format!("emitted [{}] expected layout [{}]", hex(bytes), hex(&want)));
    }
    if claimed_len != bytes.len() {
        return Err(format!("rough_tlv_len() = {} but {} bytes were emitted", claimed_len, bytes.len()));
    }
    let view = MessageView::new(Cow::Borrowed(bytes)).map_err(|e| format!("MessageView rejects the encoder's output: {}", e))?;
    let sorted = sorted_pairs(pairs, presorted);
    if view.len() != sorted.len() {
        return Err(format!("view.len() = {} expected {}", view.len(), sorted.len()));
    }
    let got: Vec<(u32, Vec<u8>)> = view.iter().map(|(t, v)| (t.value(), v.to_vec())).collect();
    if got != sorted {
        return Err(format!("view.iter() = {:x?} expected {:x?}", got, sorted));
    }
    for (i, (t, v)) in sorted.iter().enumerate() {
        match view.get(i) {
            Some((tag, value)) if tag.value() == *t && value == v.as_slice() => {}
            other => return Err(format!("view.get({}) = {:x?} expected ({:x}, {:?})", i, other.map(|(t, v)| (t.value(), v.to_vec())), t, v)),
        }
        if view.get_value(i) != Some(v.as_slice()) {
            return Err(format!("view.get_value({}) disagrees", i));
        }
        match view.find(*t) {
            Some(found) if sorted.iter().any(|(t2, v2)| t2 == t && v2.as_slice() == found) => {}
            other => return Err(format!("view.find({:x}) = {:?}: not a value stored under that tag", t, other)),
        }
    }
    {
        // the iterator through every Iterator method a client may call (position-independent: tag, length, first and last byte)
        let sig = |t: u32, v: &[u8]| (t, v.len(), v.first().copied(), v.last().copied());
        let want: Vec<_> = sorted.iter().map(|(t, v)| sig(*t, v)).collect();
        mc_core::iter_battery(|| view.iter(), |(t, v)| sig(t.value(), v), &want, "view.iter()")?;
    }
    let tags: Vec<u32> = view.tags().iter().map(|t| t.value()).collect();
    if tags != sorted.iter().map(|p| p.0).collect::<Vec<_>>() {
        return Err(format!("view.tags() = {:x?}", tags));
    }
    // indexing past the end (every index of an empty message) yields nothing
    let n = sorted.len();
    for i in [n, n + 1] {
        if let Some((t, v)) = view.get(i) {
            return Err(format!("view.get({}) = ({:x}, {} bytes) on a message of {} pairs", i, t.value(), v.len(), n));
        }
        if let Some(v) = view.get_value(i) {
            return Err(format!("view.get_value({}) = {} bytes on a message of {} pairs", i, v.len(), n));
        }
    }
    Ok(())
}

fn decreasing_somewhere(tags: &[u32]) -> bool {
    tags.windows(2).any(|w| w[0] > w[1])
}

/// Runs one case.  Err = violation description.
pub fn run_case(case: &Case) -> Result<(), String> {
    match catch(|| run_case_inner(case)) {
        Ok(r) => r,
        Err(p) => Err(format!("panic: {}", p)),
    }
}

macro_rules! construct_and_judge {
    ($case:expr, $elements:expr, $pairs:expr) => {{
        let case: &Case = $case;
        let mut elements = $elements;
        let pairs: &Vec<(u32, Vec<u8>)> = $pairs;
        match case.ctor {
            Ctor::New => {
                let msg = MessageWrapper::new(elements).map_err(|e| format!("new rejected a small list: {}", e))?;
                let bytes = emit(&msg, case.sink)?;
                judge(&bytes, msg.rough_tlv_len(), pairs, false)
            }
            Ctor::FromSlice => {
                let msg = MessageWrapper::new_from_slice(&mut elements).map_err(|e| format!("new_from_slice rejected a small list: {}", e))?;
                let bytes = emit(&msg, case.sink)?;
                judge(&bytes, msg.rough_tlv_len(), pairs, false)
            }
            Ctor::FromSorted => {
                let res = MessageWrapper::new_from_sorted(&elements);
                let must_reject = decreasing_somewhere(&case.tags);
                match (res, must_reject) {
                    (Err(_), true) => Ok(()),
                    (Err(e), false) => Err(format!("new_from_sorted rejected non-decreasing tags: {}", e)),
                    (Ok(_), true) => Err("new_from_sorted accepted tags that decrease somewhere".to_string()),
                    (Ok(msg), false) => {
                        let bytes = emit(&msg, case.sink)?;
                        judge(&bytes, msg.rough_tlv_len(), pairs, true)
                    }
                }
            }
        }
    }};
}

fn run_case_inner(case: &Case) -> Result<(), String> {
    let n = case.tags.len();
    let raw: Vec<&'static [u8]> = (0..n).map(|i| value_bytes(i, case.lens[i])).collect();
    match case.kind {
        Kind::Slice => {
            let pairs: Vec<(u32, Vec<u8>)> = (0..n).map(|i| (case.tags[i], raw[i].to_vec())).collect();
            let elements: Vec<(Tag, &[u8])> = (0..n).map(|i| (Tag::from(case.tags[i]), raw[i])).collect();
            construct_and_judge!(case, elements, &pairs)
        }
        Kind::Str => {
            let pairs: Vec<(u32, Vec<u8>)> = (0..n).map(|i| (case.tags[i], raw[i].to_vec())).collect();
            let elements: Vec<(Tag, &str)> = (0..n).map(|i| (Tag::from(case.tags[i]), std::str::from_utf8(raw[i]).unwrap())).collect();
            construct_and_judge!(case, elements, &pairs)
        }
        Kind::CowBytes => {
            let pairs: Vec<(u32, Vec<u8>)> = (0..n).map(|i| (case.tags[i], raw[i].to_vec())).collect();
            let elements: Vec<(Tag, Cow<'static, [u8]>)> = (0..n)
                .map(|i| {
                    let v: Cow<'static, [u8]> = if (case.cow_mask >> i) & 1 == 1 { Cow::Owned(raw[i].to_vec()) } else { Cow::Borrowed(raw[i]) };
                    (Tag::from(case.tags[i]), v)
                })
                .collect();
            construct_and_judge!(case, elements, &pairs)
        }
        Kind::CowStr => {
            let pairs: Vec<(u32, Vec<u8>)> = (0..n).map(|i| (case.tags[i], raw[i].to_vec())).collect();
            let elements: Vec<(Tag, Cow<'static, str>)> = (0..n)
                .map(|i| {
                    let s = std::str::from_utf8(raw[i]).unwrap();
                    let v: Cow<'static, str> = if (case.cow_mask >> i) & 1 == 1 { Cow::Owned(s.to_string()) } else { Cow::Borrowed(s) };
                    (Tag::from(case.tags[i]), v)
                })
                .collect();
            construct_and_judge!(case, elements, &pairs)
        }
        Kind::Nested | Kind::View => {
            // Value i is an inner message with (lens[i] % 3) pairs [tag 5 -> raw, tag 3 -> raw, ...],
            // which itself nests one more level when lens[i] == 5.
            let inner_pairs = |i: usize| -> Vec<(u32, Vec<u8>)> {
                match case.lens[i] {
                    0 => vec![],
                    1 => vec![(5, raw[i].to_vec())],
                    _ => vec![(9, raw[i].to_vec()), (3, vec![]), (3, raw[i][..2].to_vec())],
                }
            };
            let inner_lists: Vec<Vec<(u32, Vec<u8>)>> = (0..n).map(inner_pairs).collect();
            let inner_bytes: Vec<Vec<u8>> = inner_lists.iter().map(|l| layout(l, false)).collect();
            let pairs: Vec<(u32, Vec<u8>)> = (0..n).map(|i| (case.tags[i], inner_bytes[i].clone())).collect();
            if case.kind == Kind::View {
                let elements: Vec<(Tag, MessageView)> = (0..n)
                    .map(|i| {
                        let storage: Cow<[u8]> = if (case.cow_mask >> i) & 1 == 1 { Cow::Owned(inner_bytes[i].clone()) } else { Cow::Borrowed(&inner_bytes[i][..]) };
                        MessageView::new(storage).map(|v| (Tag::from(case.tags[i]), v)).map_err(|e| format!("inner view rejected: {}", e))
                    })
                    .collect::<Result<_, _>>()?;
                construct_and_judge!(case, elements, &pairs)
            } else {
                let inner_elems: Vec<Vec<(Tag, &[u8])>> = inner_lists.iter().map(|l| l.iter().map(|(t, v)| (Tag::from(*t), v.as_slice())).collect()).collect();
                let elements: Vec<(Tag, MessageWrapper<&[u8]>)> = (0..n)
                    .map(|i| MessageWrapper::new(inner_elems[i].clone()).map(|m| (Tag::from(case.tags[i]), m)).map_err(|e| format!("inner message rejected: {}", e)))
                    .collect::<Result<_, _>>()?;
                // one more nesting level: wrap the whole thing again
                let r1 = construct_and_judge!(case, elements, &pairs);
                r1?;
                let elements2: Vec<(Tag, MessageWrapper<&[u8]>)> = (0..n)
                    .map(|i| MessageWrapper::new(inner_elems[i].clone()).map(|m| (Tag::from(case.tags[i]), m)).map_err(|e| format!("inner message rejected: {}", e)))
                    .collect::<Result<_, _>>()?;
                let mid = MessageWrapper::new(elements2).map_err(|e| format!("mid message rejected: {}", e))?;
                let mid_bytes = layout(&pairs, false);
                let outer_pairs = vec![(7u32, mid_bytes.clone()), (2u32, mid_bytes)];
                let mid2 = {
                    let elements3: Vec<(Tag, MessageWrapper<&[u8]>)> = (0..n)
                        .map(|i| MessageWrapper::new(inner_elems[i].clone()).map(|m| (Tag::from(case.tags[i]), m)).map_err(|e| format!("inner message rejected: {}", e)))
                        .collect::<Result<_, _>>()?;
                    MessageWrapper::new(elements3).map_err(|e| format!("mid message rejected: {}", e))?
                };
                let outer = MessageWrapper::new(vec![(Tag::from(7u32), mid), (Tag::from(2u32), mid2)]).map_err(|e| format!("outer message rejected: {}", e))?;
                let bytes = emit(&outer, case.sink)?;
                judge(&bytes, outer.rough_tlv_len(), &outer_pairs, false)
            }
        }
    }
}

/// One long list: tags follow `pattern` periodically, value i is the two bytes of i.
pub fn run_long_case(pattern: &[u32], len: usize, ctor: Ctor) -> Result<(), String> {
    let values: Vec<[u8; 2]> = (0..len).map(|i| (i as u16).to_le_bytes()).collect();
    let tags: Vec<u32> = (0..len).map(|i| pattern[i % pattern.len()]).collect();
    let pairs: Vec<(u32, Vec<u8>)> = (0..len).map(|i| (tags[i], values[i].to_vec())).collect();
    let case = Case { kind: Kind::Slice, ctor, sink: SinkKind::Iovec, tags, lens: vec![], cow_mask: 0 };
    let r = catch(|| -> Result<(), String> {
        let elements: Vec<(Tag, &[u8])> = (0..len).map(|i| (Tag::from(case.tags[i]), &values[i][..])).collect();
        construct_and_judge!(&case, elements, &pairs)
    });
    match r {
        Ok(r) => r,
        Err(p) => Err(format!("panic: {}", p)),
    }
}

/// A value that only *claims* a length (never encoded): for the i32::MAX limits.
struct Claim(usize);
impl<'a> ToRoughTLV<'a> for Claim {
    fn to_rough_tlv<'dst, Sink>(&self, _sink: &mut Sink)
    where
        'a: 'dst,
        Sink: ZeroCopySink<'dst> + ?Sized,
    {
        panic!("Claim values are never encoded");
    }
    fn rough_tlv_len(&self) -> usize {
        self.0
    }
}

const IMAX: usize = i32::MAX as usize;
pub const CLAIMS: [usize; 8] = [0, 1, IMAX - 16, IMAX - 8, IMAX - 1, IMAX, IMAX + 1, usize::MAX];

pub fn run_limit_case(lens: &[usize], sorted_ctor: bool) -> Result<(), String> {
    let n = lens.len();
    let header: u128 = if n == 0 { 4 } else { 8 * n as u128 };
    let total: u128 = header + lens.iter().map(|l| *l as u128).sum::<u128>();
    let must_reject = lens.iter().any(|l| *l > IMAX) || total > IMAX as u128;
    let elements: Vec<(Tag, Claim)> = lens.iter().enumerate().map(|(i, l)| (Tag::from(i as u32), Claim(*l))).collect();
    let res = catch(|| {
        if sorted_ctor {
            MessageWrapper::new_from_sorted(&elements).map(|m| m.rough_tlv_len()).map_err(|e| e.to_string())
        } else {
            let mut copy: Vec<(Tag, Claim)> = lens.iter().enumerate().map(|(i, l)| (Tag::from(i as u32), Claim(*l))).collect();
            MessageWrapper::new_from_slice(&mut copy).map(|m| m.rough_tlv_len()).map_err(|e| e.to_string())
        }
    });
    match res {
        Err(p) => Err(format!("constructor panicked: {}", p)),
        Ok(Err(_)) if must_reject => Ok(()),
        Ok(Err(e)) => Err(format!("rejected a list within the limits (total {}): {}", total, e)),
        Ok(Ok(len)) if must_reject => Err(format!("accepted a list beyond the i32::MAX limits (total {}, len() = {})", total, len)),
        Ok(Ok(len)) => {
            if len as u128 == total {
                Ok(())
            } else {
                Err(format!("rough_tlv_len() = {} expected {}", len, total))
            }
        }
    }
}

fn violation(rep: &mut Report, key: String, summary: String, replay: String) {
    rep.violation(Violation { key, summary, replay_text: replay });
}

pub fn run(ctx: &Ctx) -> Report {
    let mut rep = Report::new();
    let max_n = ctx.tier.pick(4, 5);
    let mut unit = 0usize;
    for kind in KINDS {
        let kind_max = match kind {
            Kind::Nested | Kind::View => max_n.min(3),
            _ => max_n,
        };
        for n in 0..=kind_max {
            let tag_space = TAGS.len().pow(n as u32);
            let len_space = LENS.len().pow(n as u32);
            for tcode in 0..tag_space {
                let u = unit;
                unit += 1;
                if !ctx.owns(u) {
                    continue;
                }
                let tags: Vec<u32> = (0..n).map(|i| TAGS[(tcode / TAGS.len().pow(i as u32)) % TAGS.len()]).collect();
                for lcode in 0..len_space {
                    let lens: Vec<usize> = (0..n).map(|i| LENS[(lcode / LENS.len().pow(i as u32)) % LENS.len()]).collect();
                    let masks: u32 = match kind {
                        Kind::CowBytes | Kind::CowStr | Kind::View => 1 << n,
                        _ => 1,
                    };
                    for cow_mask in 0..masks {
                        for ctor in CTORS {
                            for sink in SINKS {
                                // The HCOBS sink and the reborrowed sink only differ in the
                                // sink, not the message: run them for every list all the same.
                                let case = Case { kind, ctor, sink, tags: tags.clone(), lens: lens.clone(), cow_mask };
                                rep.evaluations += 1;
                                rep.transitions += 1;
                                match run_case(&case) {
                                    Ok(()) => {
                                        let interesting = n >= 2 && (decreasing_somewhere(&tags) || tags.windows(2).any(|w| w[0] == w[1]));
                                        if interesting {
                                            rep.nontrivial += 1;
                                        }
                                        rep.outcome(hash_of(&(n, decreasing_somewhere(&tags), lens.iter().sum::<usize>(), format!("{:?}", (kind, ctor, sink)))));
                                        if rep.want_sample() {
                                            rep.sample(case.render());
                                        }
                                    }
                                    Err(e) => {
                                        if run_case(&case).is_ok() {
                                            machinery_failure("C11 violation did not reproduce");
                                        }
                                        let r = case.render();
                                        violation(&mut rep, format!("C11:{}", r.replace(' ', ",")), format!("rough_tlv encode [{}]: {}", r, e), format!("check: enc\ncase: {}\nobserved: {}\n", r, e));
                                    }
                                }
                            }
                        }
                    }
                }
            }
        }
    }
    // Long lists (sorting networks / insertion-sort thresholds in the constructors'
    // sort only matter beyond ~20 elements): every periodic tag pattern of period
    // <= 4 over three tags, at every length 0..=72, each value unique (its index),
    // through the two sorting constructors and new_from_sorted.
    {
        let small_tags = [1u32, 0x100, 0xFF];
        for period in 1..=4usize {
            for pcode in 0..small_tags.len().pow(period as u32) {
                let u = unit;
                unit += 1;
                if !ctx.owns(u) {
                    continue;
                }
                let pattern: Vec<u32> = (0..period).map(|i| small_tags[(pcode / small_tags.len().pow(i as u32)) % small_tags.len()]).collect();
                for len in 0..=72usize {
                    for ctor in CTORS {
                        rep.evaluations += 1;
                        rep.transitions += 1;
                        let r = run_long_case(&pattern, len, ctor);
                        match r {
                            Ok(()) => {
                                rep.count("long_list_cases", 1);
                                if len > 20 && period > 1 {
                                    rep.nontrivial += 1;
                                }
                                rep.outcome(hash_of(&("long", len > 20, period, format!("{:?}", ctor))));
                            }
                            Err(e) => {
                                let r = format!("long pattern={:x?} len={} ctor={:?}", pattern, len, ctor);
                                rep.violation(Violation { key: format!("C11:{}", r.replace(' ', ",")), summary: format!("rough_tlv [{}]: {}", r, e), replay_text: format!("check: long\npattern: {:x?}\nlen: {}\nctor: {:?}\nobserved: {}\n", pattern, len, ctor, e) });
                            }
                        }
                    }
                }
            }
        }
    }
    // Limits: claimed lengths around i32::MAX.
    let mut lens: Vec<usize> = Vec::new();
    fn limit_rec(ctx: &Ctx, rep: &mut Report, lens: &mut Vec<usize>, max_n: usize, unit: &mut usize) {
        for sorted_ctor in [false, true] {
            let u = *unit;
            *unit += 1;
            if ctx.owns(u) {
                rep.evaluations += 1;
                rep.transitions += 1;
                match run_limit_case(lens, sorted_ctor) {
                    Ok(()) => {
                        rep.count("limit_cases", 1);
                        rep.outcome(hash_of(&("limit", lens.iter().any(|l| *l > IMAX), lens.len())));
                    }
                    Err(e) => {
                        let r = format!("limit lens={:?} sorted_ctor={}", lens, sorted_ctor);
                        rep.violation(Violation { key: format!("C11:{}", r.replace(' ', ",")), summary: format!("rough_tlv [{}]: {}", r, e), replay_text: format!("check: limit\nlens: {:?}\nsorted_ctor: {}\nobserved: {}\n", lens, sorted_ctor, e) });
                    }
                }
            }
        }
        if lens.len() < max_n {
            for c in CLAIMS {
                lens.push(c);
                limit_rec(ctx, rep, lens, max_n, unit);
                lens.pop();
            }
        }
    }
    limit_rec(ctx, &mut rep, &mut lens, 3, &mut unit);
    // Big values: one or two pairs, one of them of a length around 64 KiB, every leaf kind
    // (borrowed and owned), three constructors, the iovec and hcobs sinks.
    for big in BIG_LENS {
        for kind in [Kind::Slice, Kind::Str, Kind::CowBytes, Kind::CowStr] {
            for (tags, lens) in [(vec![5u32], vec![big]), (vec![9u32, 2], vec![3, big]), (vec![1u32, 1], vec![big, 1])] {
                let masks: Vec<u32> = if matches!(kind, Kind::CowBytes | Kind::CowStr) { vec![0, (1 << tags.len()) - 1] } else { vec![0] };
                for cow_mask in masks {
                    for ctor in CTORS {
                        for sink in [SinkKind::Iovec, SinkKind::Hcobs] {
                            let u = unit;
                            unit += 1;
                            if !ctx.owns(u) {
                                continue;
                            }
                            let case = Case { kind, ctor, sink, tags: tags.clone(), lens: lens.clone(), cow_mask };
                            rep.evaluations += 1;
                            rep.transitions += 1;
                            rep.count("big_value_cases", 1);
                            if let Err(e) = run_case(&case) {
                                if run_case(&case).is_ok() {
                                    machinery_failure("C11 big-value violation did not reproduce");
                                }
                                let e = if e.len() > 300 { format!("{} ...", &e[..300]) } else { e };
                                let r = case.render();
                                violation(&mut rep, format!("C11:{}", r.replace(' ', ",")), format!("rough_tlv encode [{}]: {}", r, e), format!("check: enc\ncase: {}\nobserved: {}\n", r, e));
                            } else {
                                rep.nontrivial += 1;
                            }
                        }
                    }
                }
            }
        }
    }
    // Value CONTENTS: runs of zeros / 0xFF with and without a non-zero head or tail, at lengths around
    // 64 bytes and the next multiples of 8.
    for n in [7usize, 8, 63, 64, 65, 71, 72, 100, 128, 200] {
        for class in 0..5usize {
            for kind in [Kind::Slice, Kind::Str, Kind::CowBytes, Kind::CowStr] {
                if class == 2 && matches!(kind, Kind::Str | Kind::CowStr) {
                    continue; // 0xFF bytes are not UTF-8
                }
                let l = content_len(class, n);
                for (tags, lens) in [(vec![5u32], vec![l]), (vec![9u32, 2], vec![3, l]), (vec![1u32, 1], vec![l, l])] {
                    let masks: Vec<u32> = if matches!(kind, Kind::CowBytes | Kind::CowStr) { vec![0, (1 << tags.len()) - 1] } else { vec![0] };
                    for cow_mask in masks {
                        for ctor in CTORS {
                            for sink in [SinkKind::Iovec, SinkKind::Hcobs] {
                                let u = unit;
                                unit += 1;
                                if !ctx.owns(u) {
                                    continue;
                                }
                                let case = Case { kind, ctor, sink, tags: tags.clone(), lens: lens.clone(), cow_mask };
                                rep.evaluations += 1;
                                rep.transitions += 1;
                                rep.count("value_content_cases", 1);
                                if let Err(e) = run_case(&case) {
                                    if run_case(&case).is_ok() {
                                        machinery_failure("C11 value-content violation did not reproduce");
                                    }
                                    let e = if e.len() > 300 { format!("{} ...", &e[..300]) } else { e };
                                    let r = case.render();
                                    violation(&mut rep, format!("C11:{}", r.replace(' ', ",")), format!("rough_tlv encode [{}] (lens >= 10 000 000 are coded: 10 000 000 + class * 1000 + n = n bytes of zeros (0), zeros + non-zero last byte (1), FF (2), non-zero first byte + zeros (3), zeros + non-zero last n%8 bytes (4)): {}", r, e), format!("check: enc\ncase: {}\nobserved: {}\n", r, e));
                                }
                            }
                        }
                    }
                }
            }
        }
    }
    rep.note("value contents: values of 7 .. 200 bytes made of zeros / FF bytes, with and without a non-zero first byte, last byte or last (n mod 8) bytes, 4 leaf kinds (borrowed and owned), 3 constructors, iovec and hcobs sinks".to_string());
    rep.note(format!("big values: lists of one or two pairs with a value of {:?} bytes, kinds &[u8] / &str / Cow bytes / Cow str (all borrowed, all owned), 3 constructors, iovec and hcobs sinks", BIG_LENS));
    rep.max_depth = max_n as u64;
    rep.note(format!(
        "C11: all pair lists with 0..={} pairs (nested kinds: 0..={}), tags from {:x?}, value lengths from {:?}, 6 value kinds (with every Cow variant mask), 3 constructors, 3 sinks; plus every periodic tag pattern of period <= 4 over 3 tags at every length 0..=72 (unique values, 3 constructors); plus all claimed-length lists of <= 3 pairs over {:?}",
        max_n, max_n.min(3), TAGS, LENS, CLAIMS
    ));
    rep
}

pub fn replay(text: &str) -> Result<String, String> {
    if field(text, "check") == Some("limit") {
        let lens: Vec<usize> = field(text, "lens")
            .unwrap_or("[]")
            .trim_matches(|c| c == '[' || c == ']')
            .split(',')
            .filter_map(|x| x.trim().parse().ok())
            .collect();
        let sorted_ctor = field(text, "sorted_ctor") == Some("true");
        return match run_limit_case(&lens, sorted_ctor) {
            Err(e) => Ok(format!("lens {:?}: {}", lens, e)),
            Ok(()) => Err(format!("lens {:?}: handled as the limits require", lens)),
        };
    }
    if field(text, "check") == Some("long") {
        let pattern: Vec<u32> = field(text, "pattern")
            .unwrap_or("[]")
            .trim_matches(|c| c == '[' || c == ']')
            .split(',')
            .filter_map(|x| u32::from_str_radix(x.trim(), 16).ok())
            .collect();
        let len: usize = field(text, "len").and_then(|x| x.parse().ok()).unwrap_or(0);
        let ctor = CTORS.iter().copied().find(|c| Some(format!("{:?}", c).as_str()) == field(text, "ctor")).unwrap_or(Ctor::New);
        if pattern.is_empty() {
            machinery_failure("cannot parse pattern");
        }
        return match run_long_case(&pattern, len, ctor) {
            Err(e) => Ok(format!("pattern {:x?} len {}: {}", pattern, len, e)),
            Ok(()) => Err(format!("pattern {:x?} len {}: layout, length and view all agree", pattern, len)),
        };
    }
    let Some(case) = field(text, "case").and_then(Case::parse) else {
        machinery_failure("cannot parse case");
    };
    match run_case(&case) {
        Err(e) => Ok(format!("[{}] {}", case.render(), e)),
        Ok(()) => Err(format!("[{}] layout, length and view all agree", case.render())),
    }
}
