//! tlv_mc: bounded-exhaustive exploration of rough_tlv (C11 encoder/round trip, C12 view totality).
mod enc;
mod view;

use mc_core::*;

fn level(_prop: &str) -> &'static str {
    "exploration"
}

fn rule(ctx: &Ctx) -> String {
    match ctx.prop.as_str() {
        "C11" => "every pair list in the finite product described in notes is built through the real MessageWrapper constructors, emitted into the real sinks, compared byte-for-byte with an independent layout function and read back through MessageView; non-trivial = lists with >= 2 pairs whose tags are unsorted or repeated; distinct_nontrivial counts such cases (each case is distinct by construction).".into(),
        _ => "every byte buffer in the finite product described in notes is given to the real MessageView::new; verdict compared with a reference predicate in u128 arithmetic; on accepted views every accessor is compared with the reference layout for indices 0..N+2 and usize::MAX. non-trivial = buffers the format accepts (all accessor checks run); each buffer is distinct by construction.".into(),
    }
}

fn run(ctx: &Ctx) -> Report {
    match ctx.prop.as_str() {
        "C11" => enc::run(ctx),
        "C12" => view::run(ctx),
        other => machinery_failure(&format!("tlv_mc does not serve {}", other)),
    }
}

fn replay(ctx: &Ctx, text: &str) -> Result<String, String> {
    match ctx.prop.as_str() {
        "C11" => enc::replay(text),
        "C12" => view::replay(text),
        other => machinery_failure(&format!("tlv_mc does not serve {}", other)),
    }
}

fn assumptions(ctx: &Ctx) -> Vec<String> {
    match ctx.prop.as_str() {
        "C11" => vec![
            "the pair-count > i32::MAX clause is not run (needs an 8 GiB slice); only value-length and total-length limits are exercised, through a value type that claims a length".into(),
            "the HCOBS sink is read back through hcobs::Decoder (itself checked by C01/C07)".into(),
        ],
        _ => vec!["word alphabet covers N = 0..8, N larger than the buffer, N near 2^29/2^31/2^32, equal/decreasing/out-of-range offsets and tags, byte-order vs numeric-order differences (0xFF vs 0x100)".into()],
    }
}

fn main() {
    // a runaway execution must die alone (see mc_core::limit_address_space)
    mc_core::limit_address_space(12 << 30);
    main_entry(Engine { name: "tlv_mc", level, rule, run, replay, assumptions, decode_breadcrumb: None });
}
