//! C12 — MessageView is total on untrusted bytes and its accessors agree.
use mc_core::*;
use rough_tlv::MessageView;
use rough_tlv::Tag;
use std::borrow::Cow;

pub const WORDS: [u32; 13] = [
    0,
    1,
    2,
    3,
    4,
    5,
    8,
    0xFF,
    0x100,
    0x2000_0000,
    0x7FFF_FFFF,
    0x8000_0000,
    0xFFFF_FFFF,
];

/// Reduced alphabet for the deepest tier.
pub const WORDS_SMALL: [u32; 8] = [0, 1, 2, 3, 4, 8, 0x100, 0xFFFF_FFFF];

/// Trailing bytes after the last full word (truncations of a following word).
pub const TRAILERS: [&[u8]; 7] = [
    &[],
    &[0x01],
    &[0x01, 0x00],
    &[0x01, 0x00, 0x00],
    &[0xFF],
    &[0xFF, 0xFF],
    &[0xFF, 0xFF, 0xFF],
];

fn word(buf: &[u8], i: usize) -> u32 {
    u32::from_le_bytes(buf[4 * i..4 * i + 4].try_into().unwrap())
}

/// The format predicate, in u128 arithmetic, straight from the statement.
pub fn reference_accepts(buf: &[u8]) -> bool {
    if buf.len() < 4 {
        return false;
    }
    let n = word(buf, 0) as u128;
    if 8 * n > buf.len() as u128 {
        return false;
    }
    let n = n as usize;
    // offsets: words 1..n ; tags: words n..2n
    for i in 1..n.saturating_sub(1) {
        if word(buf, i) > word(buf, i + 1) {
            return false;
        }
    }
    for i in n..(2 * n).saturating_sub(1) {
        if word(buf, i) > word(buf, i + 1) {
            return false;
        }
    }
    if n >= 2 {
        let last = word(buf, n - 1) as u128;
        if 8 * (n as u128) + last > buf.len() as u128 {
            return false;
        }
    }
    true
}

/// Expected (tag, value range) pairs of an accepted buffer.
fn reference_pairs(buf: &[u8]) -> Vec<(u32, std::ops::Range<usize>)> {
    let n = word(buf, 0) as usize;
    let header = 8 * n;
    let mut out = Vec::new();
    for i in 0..n {
        let start = if i == 0 { 0 } else { word(buf, i) as usize };
        let end = if i + 1 == n {
            buf.len() - header
        } else {
            word(buf, i + 1) as usize
        };
        out.push((word(buf, n + i), header + start..header + end));
    }
    out
}

fn same_slice(a: &[u8], buf: &[u8], r: &std::ops::Range<usize>) -> bool {
    // same position and same length = the same bytes (no need to read them: some buffers are huge)
    a.len() == r.len() && (a.is_empty() || a.as_ptr() == buf[r.start..].as_ptr())
}

/// Where the borrowed bytes sit: `Some(k)` copies them to an address congruent to k modulo 8
/// (untrusted bytes arrive at any alignment: inside a larger record, after a 1-byte header, ...);
/// `None` uses the caller's slice as it is.
pub type Placement = Option<usize>;

/// Checks one buffer.  Ok(accepted?) or Err(what is wrong).
pub fn check_buffer(buf: &[u8], owned: bool) -> Result<bool, String> {
    check_buffer_at(buf, owned, None)
}

pub fn check_buffer_at(buf: &[u8], owned: bool, placement: Placement) -> Result<bool, String> {
    let scratch: Vec<u64>;
    let buf: &[u8] = match placement {
        Some(k) if !owned => {
            let k = k % 8;
            let mut v: Vec<u64> = vec![0u64; (buf.len() + k) / 8 + 2];
            // SAFETY: the Vec<u64> owns (len * 8) initialised bytes, 8-aligned; k + buf.len() fits.
            let bytes: &mut [u8] = unsafe { std::slice::from_raw_parts_mut(v.as_mut_ptr() as *mut u8, v.len() * 8) };
            bytes[k..k + buf.len()].copy_from_slice(buf);
            scratch = v;
            let bytes: &[u8] = unsafe { std::slice::from_raw_parts(scratch.as_ptr() as *const u8, scratch.len() * 8) };
            &bytes[k..k + buf.len()]
        }
        _ => buf,
    };
    let want = reference_accepts(buf);
    let storage: Cow<[u8]> = if owned {
        Cow::Owned(buf.to_vec())
    } else {
        Cow::Borrowed(buf)
    };
    let got = match catch(|| MessageView::new(storage)) {
        Err(p) => return Err(format!("MessageView::new panicked: {}", p)),
        Ok(r) => r,
    };
    let view = match (got, want) {
        (Err(_), false) => return Ok(false),
        (Ok(_), false) => return Err("accepted a buffer the format forbids".into()),
        (Err(e), true) => return Err(format!("rejected a well-formed buffer: {}", e)),
        (Ok(v), true) => v,
    };
    let checked = catch(|| -> Result<(), String> {
        let buf: &[u8] = view.inner();
        let pairs = reference_pairs(buf);
        let n = pairs.len();
        if view.len() != n || view.is_empty() != (n == 0) {
            return Err(format!("len()={} is_empty()={} expected N={}", view.len(), view.is_empty(), n));
        }
        let tags: Vec<u32> = view.tags().iter().map(|t| t.value()).collect();
        let want_tags: Vec<u32> = pairs.iter().map(|p| p.0).collect();
        if tags != want_tags {
            return Err(format!("tags() = {:x?} expected {:x?}", tags, want_tags));
        }
        // The values tile buf[8N..] exactly and in order (N >= 1).
        if n >= 1 {
            let mut cursor = 8 * n;
            for (_, r) in &pairs {
                if r.start != cursor || r.end < r.start {
                    return Err("reference tiling broken (harness bug)".into());
                }
                cursor = r.end;
            }
            if cursor != buf.len() {
                return Err("reference tiling does not end at the buffer end (harness bug)".into());
            }
        }
        let iterated: Vec<(Tag, &[u8])> = view.iter().collect();
        if iterated.len() != n {
            return Err(format!("iter() yields {} pairs expected {}", iterated.len(), n));
        }
        // indices at and beyond N, including ones whose low 32 bits are a valid index
        let far: Vec<usize> = vec![1usize << 31, 1usize << 32, (1usize << 32) + 1, (1usize << 32) + n.saturating_sub(1), 1usize << 33, usize::MAX - 1, usize::MAX];
        for i in (0..n + 3).chain(far) {
            let g = view.get(i);
            let gv = view.get_value(i);
            let it = view.iter().nth(i);
            if i < n {
                let (tag, r) = &pairs[i];
                match g {
                    Some((t, v)) if t.value() == *tag && same_slice(v, buf, r) => {}
                    other => return Err(format!("get({}) = {:x?} expected tag {:x} bytes {:?}", i, other.map(|(t, v)| (t.value(), v.len())), tag, r)),
                }
                match gv {
                    Some(v) if same_slice(v, buf, r) => {}
                    other => return Err(format!("get_value({}) = {:?} expected bytes {:?}", i, other.map(|v| v.len()), r)),
                }
                match it {
                    Some((t, v)) if t.value() == *tag && same_slice(v, buf, r) => {}
                    other => return Err(format!("iter().nth({}) = {:x?} expected tag {:x} bytes {:?}", i, other.map(|(t, v)| (t.value(), v.len())), tag, r)),
                }
                let (t, v) = iterated[i];
                if t.value() != *tag || !same_slice(v, buf, r) {
                    return Err(format!("iter()[{}] disagrees with the layout", i));
                }
            } else {
                if g.is_some() {
                    return Err(format!("get({}) yields something for index >= N = {}", i, n));
                }
                if let Some(v) = gv {
                    return Err(format!("get_value({}) yields {} bytes for index >= N = {}", i, v.len(), n));
                }
                if it.is_some() {
                    return Err(format!("iter().nth({}) yields something for index >= N = {}", i, n));
                }
            }
        }
        // Tag lookup: a value stored under exactly that tag, or nothing when absent.
        let mut probes: Vec<u32> = want_tags.clone();
        for t in &want_tags {
            probes.push(t.wrapping_add(1));
            probes.push(t.wrapping_sub(1));
        }
        probes.extend([0, 7, 0xDEAD_BEEF]);
        probes.sort_unstable();
        probes.dedup();
        for t in probes {
            let present = want_tags.contains(&t);
            let idx = view.find_tag(t);
            let found = view.find(t);
            match (idx, present) {
                (None, false) => {}
                (Some(j), true) if j < n && want_tags[j] == t => {}
                other => return Err(format!("find_tag({:x}) = {:?}, tag present: {}", t, other.0, present)),
            }
            match (found, present) {
                (None, false) => {}
                (Some(v), true) => {
                    if !pairs.iter().any(|(tag, r)| *tag == t && same_slice(v, buf, r)) {
                        return Err(format!("find({:x}) returned bytes not stored under that tag", t));
                    }
                }
                (Some(_), false) => return Err(format!("find({:x}) returned a value for an absent tag", t)),
                (None, true) => return Err(format!("find({:x}) returned nothing for a present tag", t)),
            }
        }
        // lookups are pure: repeating them, in any order, gives the same answers
        let mut present: Vec<u32> = want_tags.clone();
        present.dedup();
        for pass in 0..2 {
            let order: Vec<u32> = if pass == 0 { present.clone() } else { present.iter().rev().copied().collect() };
            for t in order {
                for rep_no in 0..2 {
                    match view.find(t) {
                        Some(v) if pairs.iter().any(|(tag, r)| *tag == t && same_slice(v, buf, r)) => {}
                        other => return Err(format!("find({:x}) (lookup #{} of that tag in a row, pass {}) = {:?} although the tag is present", t, rep_no + 1, pass + 1, other.map(|v| v.len()))),
                    }
                    match view.find_tag(t) {
                        Some(j) if j < n && want_tags[j] == t => {}
                        other => return Err(format!("find_tag({:x}) (repeated) = {:?} although the tag is present", t, other)),
                    }
                }
            }
        }
        if !view.tags_match_exactly(view.tags().iter().copied()) {
            return Err("tags_match_exactly(tags()) is false".into());
        }
        // (the batteries below do not depend on who owns the storage: run for the borrowed form only)
        if owned {
            return Ok(());
        }
        // tags_match_exactly(p) is the equality of two sequences, whatever kind of iterator carries p
        // (exact size hint, no upper bound, a lower bound of zero) and whichever of the two is longer
        let own: Vec<Tag> = view.tags().to_vec();
        let mut patterns: Vec<Vec<Tag>> = vec![own.clone()];
        if !own.is_empty() {
            patterns.push(own[..own.len() - 1].to_vec());
            patterns.push(own[1..].to_vec());
            let mut changed = own.clone();
            let last = changed.len() - 1;
            changed[last] = Tag::from(changed[last].value() ^ 1);
            patterns.push(changed);
        }
        let mut longer = own.clone();
        longer.push(own.last().copied().unwrap_or(Tag::from(7u32)));
        patterns.push(longer);
        for p in &patterns {
            let want = *p == own;
            let kinds: [(&str, bool); 4] = [
                ("a Vec", view.tags_match_exactly(p.clone())),
                ("a filtered iterator (size hint 0..=len)", view.tags_match_exactly(p.iter().copied().filter(|_| true))),
                ("a from_fn iterator (size hint 0..)", {
                    let mut i = 0;
                    view.tags_match_exactly(std::iter::from_fn(|| {
                        i += 1;
                        p.get(i - 1).copied()
                    }))
                }),
                ("a chained iterator", view.tags_match_exactly(p.iter().copied().take(1).chain(p.iter().copied().skip(1)))),
            ];
            for (kind, got) in kinds {
                if got != want {
                    return Err(format!("tags_match_exactly({} of {} tags) = {} on a view of {} tags, expected {}", kind, p.len(), got, own.len(), want));
                }
            }
        }
        // the iterator iter() hands out, through every Iterator method a client may call
        let want_items: Vec<(u32, usize, usize)> = pairs.iter().map(|(t, r)| (*t, r.start, r.len())).collect();
        let base = buf.as_ptr() as usize;
        mc_core::iter_battery(|| view.iter(), |(t, v)| (t.value(), if v.is_empty() { usize::MAX } else { v.as_ptr() as usize - base }, v.len()), &want_items.iter().map(|(t, s, l)| (*t, if *l == 0 { usize::MAX } else { *s }, *l)).collect::<Vec<_>>(), "iter()")?;
        mc_core::iter_battery(|| view.tags().iter(), |t| t.value(), &want_tags, "tags().iter()")?;
        Ok(())
    });
    match checked {
        Err(p) => Err(format!("accessor panicked on an accepted view: {}", p)),
        Ok(Err(e)) => Err(e),
        Ok(Ok(())) => Ok(true),
    }
}

pub fn build(words: &[u32], trailer: &[u8]) -> Vec<u8> {
    let mut buf = Vec::with_capacity(words.len() * 4 + trailer.len());
    for w in words {
        buf.extend_from_slice(&w.to_le_bytes());
    }
    buf.extend_from_slice(trailer);
    buf
}

fn placement_name(p: Placement) -> String {
    match p {
        None => "as-is".into(),
        Some(k) => format!("{}", k % 8),
    }
}

fn violation(rep: &mut Report, buf: &[u8], owned: bool, placement: Placement, err: &str) {
    if check_buffer_at(buf, owned, placement).is_ok() {
        machinery_failure("C12 violation did not reproduce");
    }
    rep.violation(Violation {
        key: format!("C12:{}", hex(buf).replace(' ', "")),
        summary: format!("MessageView on [{}] ({} storage, address = {} mod 8): {}", hex(buf), if owned { "owned" } else { "borrowed" }, placement_name(placement), err),
        replay_text: format!("check: view\nbuffer: {}\nowned: {}\nplacement: {}\nobserved: {}\n", hex(buf), owned, placement_name(placement), err),
    });
}

fn enumerate(ctx: &Ctx, rep: &mut Report, alphabet: &[u32], max_words: usize, unit_base: &mut usize) {
    // Work units: the first two words.  Shorter buffers belong to unit 0's owner.
    let a = alphabet.len();
    let mut words: Vec<u32> = Vec::new();
    // lengths 0 and 1 (and raw byte strings shorter than a word)
    let unit = *unit_base;
    *unit_base += 1;
    if ctx.owns(unit) {
        for t in TRAILERS {
            one(rep, &[], t);
        }
        for w in alphabet {
            for t in TRAILERS {
                one(rep, &[*w], t);
            }
        }
    }
    for i in 0..a {
        for j in 0..a {
            let unit = *unit_base;
            *unit_base += 1;
            if !ctx.owns(unit) {
                continue;
            }
            words.clear();
            words.push(alphabet[i]);
            words.push(alphabet[j]);
            rec(rep, alphabet, &mut words, max_words);
        }
    }
}

fn rec(rep: &mut Report, alphabet: &[u32], words: &mut Vec<u32>, max_words: usize) {
    // Prune: once the header is known to be rejected for every extension, one
    // representative per length still runs (the predicate is evaluated anyway);
    // no pruning is done so that the space is the full product.
    for t in TRAILERS {
        one(rep, words, t);
    }
    if words.len() < max_words {
        for w in alphabet {
            words.push(*w);
            rec(rep, alphabet, words, max_words);
            words.pop();
        }
    }
}

fn one(rep: &mut Report, words: &[u32], trailer: &[u8]) {
    let buf = build(words, trailer);
    rep.evaluations += 1;
    // Alternate Cow::Borrowed / Cow::Owned storage deterministically; borrowed buffers rotate
    // through the four placements modulo 4 (plus 4 every other round, i.e. all eight modulo 8).
    let owned = (rep.evaluations & 1) == 0;
    let placement: Placement = Some(((rep.evaluations >> 1) % 8) as usize);
    match check_buffer_at(&buf, owned, placement) {
        Ok(accepted) => {
            if accepted {
                rep.nontrivial += 1;
                rep.transitions += 1;
                let n = word(&buf, 0);
                rep.outcome(hash_of(&("acc", n, buf.len() - 8 * n as usize)));
                rep.count(&format!("accepted_N{}", n.min(9)), 1);
            } else {
                rep.outcome(hash_of(&("rej", buf.len() < 4, words.first().map(|w| *w as u64 * 8 > buf.len() as u64))));
            }
            if rep.want_sample() {
                rep.sample(format!("[{}] -> {}", hex(&buf), if accepted { "accepted, accessors agree" } else { "rejected" }));
            }
        }
        Err(e) => violation(rep, &buf, owned, placement, &e),
    }
}

/// Long headers: N pairs (N up to 40) with sorted tags and offsets except for one adjacent
/// descent at each position in turn (tags, then offsets), and the fully sorted message.
fn long_headers(ctx: &Ctx, rep: &mut Report, unit: &mut usize) {
    for n in 2..=40usize {
        let u = *unit;
        *unit += 1;
        if !ctx.owns(u) {
            continue;
        }
        // values of 1 byte each: offsets 1, 2, ..., n-1; tags 10, 20, ..., 10n
        let base_offsets: Vec<u32> = (1..n as u32).collect();
        let base_tags: Vec<u32> = (1..=n as u32).map(|i| 10 * i).collect();
        let build_msg = |offsets: &[u32], tags: &[u32]| -> Vec<u8> {
            let mut words = vec![n as u32];
            words.extend_from_slice(offsets);
            words.extend_from_slice(tags);
            let mut buf = build(&words, &[]);
            buf.extend((0..n).map(|i| 0x40 + i as u8));
            buf
        };
        one_buffer(rep, &build_msg(&base_offsets, &base_tags));
        for p in 0..n - 1 {
            // a descent between tags p and p+1
            let mut tags = base_tags.clone();
            tags[p + 1] = tags[p] - 1;
            one_buffer(rep, &build_msg(&base_offsets, &tags));
            // equal neighbours are allowed
            let mut tags = base_tags.clone();
            tags[p + 1] = tags[p];
            one_buffer(rep, &build_msg(&base_offsets, &tags));
            if p + 1 < base_offsets.len() {
                let mut offsets = base_offsets.clone();
                offsets[p + 1] = offsets[p] - 1;
                one_buffer(rep, &build_msg(&offsets, &base_tags));
            }
        }
        // last offset beyond the payload
        let mut offsets = base_offsets.clone();
        *offsets.last_mut().unwrap() = n as u32 + 1;
        one_buffer(rep, &build_msg(&offsets, &base_tags));
    }
    rep.note("long headers: N = 2..=40 pairs of 1-byte values, fully sorted, and with a single adjacent descent (or tie) at every position among the tags and among the offsets, and a last offset beyond the payload".to_string());
}

/// Every buffer of <= max_words words over the small alphabet (no trailer, 3-byte trailer) at every
/// address modulo 4: alignment-dependent reads of the header are exercised on the full product.
fn all_placements(ctx: &Ctx, rep: &mut Report, unit: &mut usize, max_words: usize) {
    fn go(rep: &mut Report, words: &mut Vec<u32>, max_words: usize) {
        for t in [&[][..], &[0xAAu8, 0xBB, 0xCC][..]] {
            let buf = build(words, t);
            for k in 0..4usize {
                rep.evaluations += 1;
                rep.count("all_placement_buffers", 1);
                match check_buffer_at(&buf, false, Some(k)) {
                    Ok(acc) => {
                        if acc {
                            rep.nontrivial += 1;
                            rep.transitions += 1;
                        }
                    }
                    Err(e) => violation(rep, &buf, false, Some(k), &e),
                }
            }
        }
        if words.len() < max_words {
            for w in WORDS_SMALL {
                words.push(w);
                go(rep, words, max_words);
                words.pop();
            }
        }
    }
    for a in WORDS_SMALL {
        for b in WORDS_SMALL {
            let u = *unit;
            *unit += 1;
            if !ctx.owns(u) {
                continue;
            }
            let mut words = vec![a, b];
            go(rep, &mut words, max_words);
        }
    }
    rep.note(format!("placements: every buffer of 2..={} words over the {}-word alphabet (with and without a 3-byte trailer) borrowed at every address modulo 4; the main enumeration rotates borrowed buffers through all addresses modulo 8", max_words, WORDS_SMALL.len()));
}

fn huge_cases() -> Vec<(&'static str, Vec<u32>, usize)> {
    vec![
        ("N=1, payload 2^32+5", vec![1u32, 0x41], (1usize << 32) + 5),
        ("N=2, first value 10 bytes, payload 2^32+5", vec![2u32, 10, 0x41, 0x42], (1usize << 32) + 5),
        ("N=2, first value 10 bytes, payload 2^32-1", vec![2u32, 10, 0x41, 0x42], (1usize << 32) - 1),
        ("N=3, payload 2^33+1", vec![3u32, 4, 8, 1, 2, 3], (1usize << 33) + 1),
    ]
}

fn huge_buffer(header: &[u32], payload: usize) -> Vec<u8> {
    let mut buf: Vec<u8> = vec![0u8; header.len() * 4 + payload];
    for (i, w) in header.iter().enumerate() {
        buf[4 * i..4 * i + 4].copy_from_slice(&w.to_le_bytes());
    }
    buf
}

/// Payloads of 4 GiB and more (the last value runs to the end of the buffer, so the format allows
/// them): offsets are 32-bit, lengths are not.  The buffers are lazily zeroed allocations of which
/// only the header pages are ever touched; values are compared by position and length.
fn huge_payloads(ctx: &Ctx, rep: &mut Report, unit: &mut usize) {
    let u = *unit;
    *unit += 1;
    if !ctx.owns(u) {
        return;
    }
    for (name, header, payload) in huge_cases() {
        let buf = huge_buffer(&header, payload);
        rep.evaluations += 1;
        rep.count("huge_payload_buffers", 1);
        match check_buffer_at(&buf, false, None) {
            Ok(true) => {
                rep.nontrivial += 1;
                rep.transitions += 1;
            }
            Ok(false) => rep.violation(Violation {
                key: format!("C12:huge:{}", name.replace(' ', "")),
                summary: format!("MessageView on a {}-byte buffer ({}): rejected although the format allows it", buf.len(), name),
                replay_text: format!("check: view-huge\ncase: {}\n", name),
            }),
            Err(e) => rep.violation(Violation {
                key: format!("C12:huge:{}", name.replace(' ', "")),
                summary: format!("MessageView on a {}-byte buffer ({}): {}", buf.len(), name, e),
                replay_text: format!("check: view-huge\ncase: {}\nobserved: {}\n", name, e),
            }),
        }
    }
    rep.note("huge payloads: N = 1, 2, 3 with payloads of 2^32 - 1, 2^32 + 5 and 2^33 + 1 bytes (lazily zeroed; values compared by position and length): accepted, and every accessor agrees with the layout".to_string());
}

fn one_buffer(rep: &mut Report, buf: &[u8]) {
    // owned storage, and borrowed storage at every address modulo 4 (and one modulo-8 variant)
    for (owned, placement) in [(true, None), (false, Some(0usize)), (false, Some(1)), (false, Some(2)), (false, Some(3)), (false, Some(4))] {
        rep.evaluations += 1;
        match check_buffer_at(buf, owned, placement) {
            Ok(accepted) => {
                if accepted {
                    rep.nontrivial += 1;
                    rep.transitions += 1;
                }
                rep.count("long_header_buffers", 1);
            }
            Err(e) => violation_long(rep, buf, owned, placement, &e),
        }
    }
}

fn violation_long(rep: &mut Report, buf: &[u8], owned: bool, placement: Placement, err: &str) {
    let full: String = buf.iter().map(|b| format!("{:02X}", b)).collect::<Vec<_>>().join(" ");
    rep.violation(Violation {
        key: format!("C12:{}:{}", full.replace(' ', ""), placement_name(placement)),
        summary: format!("MessageView on a {}-byte buffer with N = {} ({} storage, address = {} mod 8): {}", buf.len(), u32::from_le_bytes(buf[0..4].try_into().unwrap()), if owned { "owned" } else { "borrowed" }, placement_name(placement), err),
        replay_text: format!("check: view\nbuffer: {}\nowned: {}\nplacement: {}\nobserved: {}\n", full, owned, placement_name(placement), err),
    });
}

pub fn run(ctx: &Ctx) -> Report {
    let mut rep = Report::new();
    let mut unit = 0usize;
    long_headers(ctx, &mut rep, &mut unit);
    huge_payloads(ctx, &mut rep, &mut unit);
    let w = ctx.tier.pick(7, 8);
    enumerate(ctx, &mut rep, &WORDS, w, &mut unit);
    let w_small = ctx.tier.pick(8, 9);
    enumerate(ctx, &mut rep, &WORDS_SMALL, w_small, &mut unit);
    all_placements(ctx, &mut rep, &mut unit, ctx.tier.pick(6, 7));
    rep.max_depth = w_small as u64;
    rep.states = Default::default();
    rep.note(format!(
        "C12: all buffers of <= {} words over the {}-word alphabet and of <= {} words over the {}-word alphabet, each with {} trailers (0-3 trailing bytes), Cow::Borrowed and Cow::Owned alternating",
        w, WORDS.len(), w_small, WORDS_SMALL.len(), TRAILERS.len()
    ));
    rep
}

pub fn replay(text: &str) -> Result<String, String> {
    if field(text, "check") == Some("view-huge") {
        let name = field(text, "case").unwrap_or("");
        let Some((_, header, payload)) = huge_cases().into_iter().find(|c| c.0 == name) else {
            machinery_failure("unknown huge-payload case");
        };
        let buf = huge_buffer(&header, payload);
        return match check_buffer_at(&buf, false, None) {
            Ok(true) => Err(format!("{}: accepted and consistent", name)),
            Ok(false) => Ok(format!("{}: rejected although the format allows it", name)),
            Err(e) => Ok(format!("{}: {}", name, e)),
        };
    }
    let Some(buf) = field(text, "buffer").and_then(unhex) else {
        machinery_failure("cannot parse buffer");
    };
    let owned = field(text, "owned") == Some("true");
    let placement: Placement = field(text, "placement").and_then(|p| p.trim().parse::<usize>().ok());
    match check_buffer_at(&buf, owned, placement) {
        Err(e) => Ok(format!("[{}] {}", hex(&buf), e)),
        Ok(acc) => Err(format!("[{}] {} as the format requires", hex(&buf), if acc { "accepted and consistent" } else { "rejected" })),
    }
}
