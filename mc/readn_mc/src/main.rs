//! readn_mc: C17 — arena reads return exactly what the reader delivered, under any I/O faults.
//!
//! Fault enumeration: ALL reader scripts over a 7-symbol alphabet up to a length
//! bound x counts x attempt limits x arena states x entry points, each run on the
//! real code and compared with a 15-line specification of read_n.
use hcobs::Decoder;
use hcobs::Encoder;
use mc_core::refcodec;
use mc_core::*;
use owning_iovec::ByteArena;
use std::io::ErrorKind;
use std::io::Read;
use std::num::NonZeroUsize;

#[derive(Clone, Copy, Debug, PartialEq, Eq)]
pub enum Sym {
    D1,
    D2,
    DAll,
    Intr,
    Eof,
    ErrOther,
    ErrWouldBlock,
    /// a hard error whose kind looks like an end-of-file condition
    ErrUnexpectedEof,
    /// large-count family only: deliver up to 40000 / 64008 bytes
    D40000,
    D64008,
}
/// Alphabet of the large-count family (counts beyond one HCOBS chunk).
pub const LARGE_SYMS: [Sym; 8] = [Sym::DAll, Sym::D40000, Sym::D64008, Sym::D1, Sym::Intr, Sym::Eof, Sym::ErrOther, Sym::ErrWouldBlock];
pub const SYMS: [Sym; 8] = [Sym::DAll, Sym::D1, Sym::D2, Sym::Intr, Sym::Eof, Sym::ErrOther, Sym::ErrWouldBlock, Sym::ErrUnexpectedEof];

impl Sym {
    fn name(self) -> &'static str {
        match self {
            Sym::D1 => "deliver1",
            Sym::D2 => "deliver2",
            Sym::DAll => "deliverAll",
            Sym::Intr => "EINTR",
            Sym::Eof => "EOF",
            Sym::ErrOther => "ErrOther",
            Sym::ErrWouldBlock => "ErrWouldBlock",
            Sym::ErrUnexpectedEof => "ErrUnexpectedEof",
            Sym::D40000 => "deliver40000",
            Sym::D64008 => "deliver64008",
        }
    }
    fn parse(s: &str) -> Option<Sym> {
        SYMS.iter().chain(LARGE_SYMS.iter()).copied().find(|x| x.name() == s)
    }
    fn amount(self) -> Option<usize> {
        match self {
            Sym::D1 => Some(1),
            Sym::D2 => Some(2),
            Sym::D40000 => Some(40000),
            Sym::D64008 => Some(64008),
            Sym::DAll => Some(usize::MAX),
            _ => None,
        }
    }
}

/// A reader that follows a script (EOF forever after its end), delivering
/// bytes from `source`, and logs the size of every buffer it was handed.
pub struct ScriptReader<'a> {
    script: &'a [Sym],
    step: usize,
    source: &'a [u8],
    pos: usize,
    pub asked: Vec<usize>,
    /// what each call was answered: Ok(bytes delivered; 0 = end of file) or Err(kind)
    pub answers: Vec<Result<usize, ErrorKind>>,
}

impl<'a> ScriptReader<'a> {
    pub fn new(script: &'a [Sym], source: &'a [u8]) -> Self {
        ScriptReader { script, step: 0, source, pos: 0, asked: Vec::new(), answers: Vec::new() }
    }
    pub fn delivered(&self) -> &'a [u8] {
        &self.source[..self.pos]
    }
}

impl Read for ScriptReader<'_> {
    fn read(&mut self, dst: &mut [u8]) -> std::io::Result<usize> {
        self.asked.push(dst.len());
        let sym = self.script.get(self.step).copied().unwrap_or(Sym::Eof);
        self.step += 1;
        let want = match sym {
            Sym::D1 | Sym::D2 | Sym::DAll | Sym::D40000 | Sym::D64008 => sym.amount().unwrap(),
            Sym::Intr => {
                self.answers.push(Err(ErrorKind::Interrupted));
                return Err(std::io::Error::new(ErrorKind::Interrupted, "interrupted"));
            }
            Sym::Eof => {
                self.answers.push(Ok(0));
                return Ok(0);
            }
            Sym::ErrOther => {
                self.answers.push(Err(ErrorKind::Other));
                return Err(std::io::Error::other("hard error"));
            }
            Sym::ErrWouldBlock => {
                self.answers.push(Err(ErrorKind::WouldBlock));
                return Err(std::io::Error::new(ErrorKind::WouldBlock, "would block"));
            }
            Sym::ErrUnexpectedEof => {
                self.answers.push(Err(ErrorKind::UnexpectedEof));
                return Err(std::io::Error::new(ErrorKind::UnexpectedEof, "source went away"));
            }
        };
        let n = want.min(dst.len()).min(self.source.len() - self.pos);
        dst[..n].copy_from_slice(&self.source[self.pos..self.pos + n]);
        self.pos += n;
        self.answers.push(Ok(n));
        Ok(n)
    }
}

/// What the statement says read_n does.
#[derive(Debug, PartialEq, Eq)]
pub struct Expected {
    pub result: Result<usize, ErrorKind>, // Ok(number of bytes delivered) or Err(kind)
    pub calls: usize,
    pub asked: Vec<usize>,
}

pub fn spec(script: &[Sym], count: usize, attempts: usize, source_len: usize) -> Expected {
    if count == 0 {
        return Expected { result: Ok(0), calls: 0, asked: vec![] };
    }
    let mut got = 0usize;
    let mut err: Option<ErrorKind> = None;
    let mut asked = Vec::new();
    for i in 0..attempts {
        let sym = script.get(i).copied().unwrap_or(Sym::Eof);
        asked.push(count - got);
        let deliver = |k: usize| k.min(count - got).min(source_len - got);
        match sym {
            Sym::D1 | Sym::D2 | Sym::DAll | Sym::D40000 | Sym::D64008 => {
                let n = deliver(sym.amount().unwrap());
                got += n;
                if n == 0 {
                    err = None; // a zero-sized read is end of file
                    break;
                }
            }
            Sym::Eof => {
                err = None;
                break;
            }
            Sym::Intr => err = Some(ErrorKind::Interrupted),
            Sym::ErrOther => {
                err = Some(ErrorKind::Other);
                break;
            }
            Sym::ErrWouldBlock => {
                err = Some(ErrorKind::WouldBlock);
                break;
            }
            Sym::ErrUnexpectedEof => {
                err = Some(ErrorKind::UnexpectedEof);
                break;
            }
        }
        if got == count {
            break;
        }
    }
    let result = match (got, err) {
        (0, Some(kind)) => Err(kind),
        _ => Ok(got),
    };
    Expected { calls: asked.len(), asked, result }
}

#[derive(Clone, Copy, Debug, PartialEq, Eq)]
pub enum ArenaState {
    NoCache,
    FreshChunk,
    RemainingEqCount,
    RemainingCountMinus1,
    RemainingZero,
    /// an earlier read of 1 MiB + 1 bytes was completed and dropped: the arena's current chunk is at
    /// its largest size class (used by the exact-1-MiB family only)
    AfterBigRead,
}
/// every state, for parsing artefacts
pub const ALL_ARENA_STATES: [ArenaState; 6] = [ArenaState::NoCache, ArenaState::FreshChunk, ArenaState::RemainingEqCount, ArenaState::RemainingCountMinus1, ArenaState::RemainingZero, ArenaState::AfterBigRead];
pub const ARENA_STATES: [ArenaState; 5] = [ArenaState::NoCache, ArenaState::FreshChunk, ArenaState::RemainingEqCount, ArenaState::RemainingCountMinus1, ArenaState::RemainingZero];

#[derive(Clone, Copy, Debug, PartialEq, Eq)]
pub enum Entry {
    Arena,
    EncoderReadN,
    EncodeRead,
    DecoderReadN,
    DecodeRead,
}
pub const ENTRIES: [Entry; 5] = [Entry::Arena, Entry::EncoderReadN, Entry::EncodeRead, Entry::DecoderReadN, Entry::DecodeRead];

pub const COUNTS: [usize; 5] = [0, 1, 2, 3, 5];
pub const ATTEMPTS: [usize; 5] = [1, 2, 3, 5, usize::MAX];

static PATTERN: [u8; 16] = [0x31, 0xFE, 0xFD, 0x34, 0xFE, 0x36, 0x37, 0x38, 0x39, 0x3A, 0x3B, 0x3C, 0x3D, 0x3E, 0x3F, 0x40];

/// The bytes the reader delivers: the 16-byte pattern for the small counts, a 400 000-byte stream
/// (long stuff-free runs, a stuff sequence every 100 000 bytes, lone FE bytes) for the large ones.
fn source(count: usize) -> &'static [u8] {
    static BIG: std::sync::OnceLock<Vec<u8>> = std::sync::OnceLock::new();
    if count <= 16 {
        &PATTERN
    } else {
        BIG.get_or_init(|| {
            (0..2_300_000usize)
                .map(|i| match i % 100_000 {
                    1 => 0xFE,
                    2 => 0xFD,
                    50_000 => 0xFE,
                    _ => 0x30 + (i % 67) as u8,
                })
                .collect()
        })
    }
}

/// Bounded rendering for messages (large-count cases).
fn show(b: &[u8]) -> String {
    if b.len() <= 48 {
        hex(b)
    } else {
        format!("{} bytes starting {} ending {}", b.len(), hex(&b[..8]), hex(&b[b.len() - 8..]))
    }
}

#[derive(Clone, Debug)]
pub struct Case {
    pub script: Vec<Sym>,
    pub count: usize,
    pub attempts: usize,
    pub arena: ArenaState,
    pub entry: Entry,
}

impl Case {
    pub fn render(&self) -> String {
        format!(
            "entry={:?} arena={:?} count={} attempts={} script={}",
            self.entry,
            self.arena,
            self.count,
            if self.attempts == usize::MAX { "MAX".to_string() } else { self.attempts.to_string() },
            self.script.iter().map(|s| s.name()).collect::<Vec<_>>().join(",")
        )
    }
    pub fn parse(text: &str) -> Option<Case> {
        let get = |name: &str| -> Option<&str> {
            let start = text.find(&format!("{}=", name))? + name.len() + 1;
            let rest = &text[start..];
            Some(&rest[..rest.find(' ').unwrap_or(rest.len())])
        };
        let attempts = match get("attempts")? {
            "MAX" => usize::MAX,
            x => x.parse().ok()?,
        };
        let script = get("script")?;
        Some(Case {
            entry: ENTRIES.iter().copied().find(|e| format!("{:?}", e) == get("entry").unwrap_or(""))?,
            arena: ALL_ARENA_STATES.iter().copied().find(|e| format!("{:?}", e) == get("arena").unwrap_or(""))?,
            count: get("count")?.parse().ok()?,
            attempts,
            script: if script.is_empty() { vec![] } else { script.split(',').map(Sym::parse).collect::<Option<Vec<_>>>()? },
        })
    }
}

/// Brings `arena` into the requested state relative to `count`.
fn prepare_arena(arena: &mut ByteArena, state: ArenaState, count: usize) {
    let full = [Sym::DAll];
    let junk = [0u8; 8192];
    let set_remaining = |arena: &mut ByteArena, target: usize| {
        arena.ensure_capacity(1);
        let rem = arena.remaining();
        assert!(rem >= target);
        if rem > target {
            let mut left = rem - target;
            while left > 0 {
                let n = left.min(junk.len());
                let r = arena.read_n(ScriptReader::new(&full, &junk), n, NonZeroUsize::MAX).expect("burn");
                assert_eq!(r.slice().len(), n);
                left -= n;
            }
        }
        assert_eq!(arena.remaining(), target);
    };
    match state {
        ArenaState::NoCache => arena.flush_cache(),
        ArenaState::FreshChunk => arena.ensure_capacity(1),
        ArenaState::RemainingEqCount => set_remaining(arena, count),
        ArenaState::RemainingCountMinus1 => set_remaining(arena, count.saturating_sub(1)),
        ArenaState::RemainingZero => set_remaining(arena, 0),
        ArenaState::AfterBigRead => {
            let n = (1usize << 20) + 1;
            let big = vec![0x5Au8; n];
            let got = arena.read_n(ScriptReader::new(&full, &big), n, NonZeroUsize::MAX).expect("big read");
            assert_eq!(got.slice().len(), n);
            drop(got);
        }
    }
}

fn kind_of(e: &std::io::Error) -> ErrorKind {
    e.kind()
}

/// Runs one case on the real code.  Err = violation description.
pub fn run_case(case: &Case) -> Result<(), String> {
    set_breadcrumb(format!("case: {}\n", case.render()).as_bytes());
    match catch(|| run_case_inner(case)) {
        Ok(r) => r,
        Err(p) => Err(format!("panic: {}", p)),
    }
}

/// Judges the reader interaction against the statement, on the trace that actually happened
/// (the implementation is free to ask for less than it still needs): at most max_attempts calls,
/// never more than `count` bytes asked for in total, no call after end of file / a non-interrupt
/// error / the count was reached, no stop before one of those or the attempt budget.
/// Returns what the statement says the call must return.
fn judge_trace(reader: &ScriptReader, count: usize, attempts: usize) -> Result<Expected, String> {
    let calls = reader.asked.len();
    if count == 0 {
        if calls != 0 {
            return Err(format!("count 0 but the reader was called {} times", calls));
        }
        return Ok(Expected { result: Ok(0), calls: 0, asked: vec![] });
    }
    if calls > attempts {
        return Err(format!("reader called {} times, more than max_attempts {}", calls, attempts));
    }
    let mut got = 0usize;
    let mut last_err: Option<ErrorKind> = None;
    let mut stop: Option<&'static str> = None;
    for i in 0..calls {
        if let Some(why) = stop {
            return Err(format!("reader called again (call {}) after {}", i + 1, why));
        }
        let asked = reader.asked[i];
        if asked == 0 || asked > count - got {
            return Err(format!("call {} asked for {} bytes with {} of {} already delivered (buffer sizes {:?})", i + 1, asked, got, count, reader.asked));
        }
        match reader.answers[i] {
            Ok(0) => {
                last_err = None;
                stop = Some("end of file");
            }
            Ok(n) => {
                got += n;
                if got == count {
                    stop = Some("the count was reached");
                }
            }
            Err(ErrorKind::Interrupted) => last_err = Some(ErrorKind::Interrupted),
            Err(kind) => {
                last_err = Some(kind);
                stop = Some("a non-interrupt error");
            }
        }
    }
    if stop.is_none() && calls < attempts {
        return Err(format!("stopped after {} reader calls with {} of {} bytes, no end of file, no hard error and {} attempts left", calls, got, count, if attempts == usize::MAX { "unlimited".to_string() } else { (attempts - calls).to_string() }));
    }
    if reader.pos != got {
        machinery_failure("reader log inconsistent");
    }
    let result = match (got, last_err) {
        (0, Some(kind)) => Err(kind),
        _ => Ok(got),
    };
    Ok(Expected { result, calls, asked: reader.asked.clone() })
}

fn run_case_inner(case: &Case) -> Result<(), String> {
    let attempts = NonZeroUsize::new(case.attempts).unwrap();
    let live0 = (ByteArena::num_live_chunks(), ByteArena::num_live_bytes());
    let r = match case.entry {
        Entry::Arena => run_arena(case, attempts),
        Entry::EncoderReadN | Entry::EncodeRead => run_encoder(case, attempts),
        Entry::DecoderReadN | Entry::DecodeRead => run_decoder(case, attempts),
    };
    r?;
    let live1 = (ByteArena::num_live_chunks(), ByteArena::num_live_bytes());
    if live0 != live1 {
        return Err(format!("[leak] arena leak: live (chunks, bytes) {:?} -> {:?} after everything was dropped", live0, live1));
    }
    Ok(())
}

fn run_arena(case: &Case, attempts: NonZeroUsize) -> Result<(), String> {
    let mut arena = ByteArena::new();
    prepare_arena(&mut arena, case.arena, case.count);
    let before = arena.remaining();
    let src = source(case.count);
    let mut reader = ScriptReader::new(&case.script, src);
    let got = arena.read_n(&mut reader, case.count, attempts);
    let want = judge_trace(&reader, case.count, case.attempts)?;
    match (&got, &want.result) {
        (Ok(slice), Ok(n)) => {
            if slice.slice() != &src[..*n] {
                return Err(format!("returned [{}] expected the delivered bytes [{}]", show(slice.slice()), show(&src[..*n])));
            }
            if reader.delivered() != slice.slice() {
                return Err("returned bytes differ from what the reader handed over".into());
            }
            // liveness + hand-back of the unread tail
            let ptr = slice.slice().as_ptr() as usize;
            if *n > 0 {
                if !owning_iovec::verif::is_live(ptr, *n) {
                    return Err("[live] returned slice is not inside a live arena chunk".into());
                }
                let chunk = owning_iovec::verif::live_chunks().into_iter().find(|(lo, hi)| *lo <= ptr && ptr + n <= *hi).unwrap();
                if arena.remaining() != chunk.1 - (ptr + n) {
                    return Err(format!("unread tail not handed back: remaining() = {} expected {}", arena.remaining(), chunk.1 - (ptr + n)));
                }
                if before >= case.count && arena.remaining() != before - n {
                    return Err(format!("remaining() = {} expected {} - {}", arena.remaining(), before, n));
                }
            } else if before >= case.count && arena.remaining() != before {
                return Err(format!("empty read changed remaining() from {} to {}", before, arena.remaining()));
            }
        }
        (Err(e), Err(kind)) => {
            if kind_of(e) != *kind {
                return Err(format!("failed with {:?} expected the last error {:?}", kind_of(e), kind));
            }
            if before >= case.count && arena.remaining() != before {
                return Err(format!("failed read changed remaining() from {} to {}", before, arena.remaining()));
            }
        }
        (Ok(slice), Err(kind)) => return Err(format!("returned Ok({} bytes) expected Err({:?})", slice.slice().len(), kind)),
        (Err(e), Ok(n)) => return Err(format!("returned Err({:?}) expected Ok({} bytes)", kind_of(e), n)),
    }
    // A second read starts right after the first one's bytes (nothing lost, nothing overlapping).
    if let Ok(first) = &got {
        let second = arena.read_n(ScriptReader::new(&[Sym::DAll], &PATTERN), 3, NonZeroUsize::MAX).map_err(|e| format!("follow-up read failed: {}", e))?;
        if second.slice() != &PATTERN[..3] {
            return Err("follow-up read returned wrong bytes".into());
        }
        // ... and a follow-up larger than a small chunk
        let big = source(5000);
        let third = arena.read_n(ScriptReader::new(&[Sym::DAll], big), 5000, NonZeroUsize::MAX).map_err(|e| format!("second follow-up read failed: {}", e))?;
        if third.slice() != &big[..5000] {
            return Err("second follow-up read returned wrong bytes".into());
        }
        let a = first.slice().as_ptr_range();
        let b = second.slice().as_ptr_range();
        if !first.slice().is_empty() && (a.start as usize) < (b.end as usize) && (b.start as usize) < (a.end as usize) {
            return Err("follow-up allocation overlaps the returned slice".into());
        }
        if first.slice() != &src[..first.slice().len()] {
            return Err("returned slice changed after a follow-up read".into());
        }
    }
    drop(got);
    drop(arena);
    Ok(())
}

fn run_encoder(case: &Case, attempts: NonZeroUsize) -> Result<(), String> {
    // prefix ends in FE so that a byte is held back across the read
    // (mid-size counts: no byte is held back, so that nothing but the bytes read lands in their chunk)
    let prefix: &[u8] = if (65..=300).contains(&case.count) { &[0x61, 0x62] } else { &[0x61, 0xFE] };
    let suffix: &[u8] = &[0xFD, 0x62];
    // (mid-size counts read stuff-free bytes: a stuff sequence inside the read would put a chunk header,
    // an anchored allocation, into the same arena chunk as the bytes read)
    let src = if (65..=300).contains(&case.count) { &source(case.count)[1000..] } else { source(case.count) };
    let mut enc = Encoder::new();
    enc.encode_copy(prefix);
    {
        let mut consumer = enc.consumer();
        prepare_arena(consumer.arena(), case.arena, case.count);
    }
    let mut reader = ScriptReader::new(&case.script, src);
    let mut message = prefix.to_vec();
    let mid = (65..=300).contains(&case.count);
    if mid && case.arena == ArenaState::RemainingCountMinus1 {
        // the arena's current chunk filled by the encoder's OWN small copies (not by reads through the
        // arena) until less than half the count is left: the read buffer opens the next chunk
        enc.consumer().arena().ensure_capacity(1);
        while enc.consumer().arena().remaining() > case.count / 2 {
            enc.encode_copy(b"x");
            message.push(b'x');
        }
    }
    match case.entry {
        Entry::EncoderReadN => {
            let got = enc.read_n(&mut reader, case.count, attempts);
            let want = judge_trace(&reader, case.count, case.attempts)?;
            match (&got, &want.result) {
                (Ok(slice), Ok(n)) if slice.slice() == &src[..*n] => {}
                (Err(e), Err(kind)) if kind_of(e) == *kind => {}
                (g, w) => return Err(format!("Encoder::read_n returned {:?} expected {:?}", g.as_ref().map(|s| show(s.slice())).map_err(kind_of), w)),
            }
            // the read alone must leave the output unaffected
        }
        _ => {
            let got = enc.encode_read(&mut reader, case.count, attempts);
            let want = judge_trace(&reader, case.count, case.attempts)?;
            match (&got, &want.result) {
                (Ok(n), Ok(m)) if n == m => message.extend_from_slice(&src[..*n]),
                (Err(e), Err(kind)) if kind_of(e) == *kind => {}
                (g, w) => return Err(format!("encode_read returned {:?} expected {:?}", g.as_ref().map_err(kind_of), w)),
            }
            // A SECOND read on the same encoder, whatever became of the first one (end of file, an
            // error, a short read): the reader now has data; it must be called, and what it
            // delivers must be encoded.  (A source that was at end of file a moment ago may have
            // grown: a log being tailed.)
            if mid && case.arena == ArenaState::RemainingCountMinus1 {
                // ... and a large read right behind it does not fit in that chunk either: the arena moves
                // on with nothing but the bytes read in the chunk it leaves
                let big = &source(20_000)[1000..21_000];
                let n = enc.encode_read(ScriptReader::new(&[Sym::DAll], big), big.len(), NonZeroUsize::MAX).map_err(|e| format!("follow-up encode_read failed: {}", e))?;
                if n != big.len() {
                    return Err(format!("follow-up encode_read returned {} of {}", n, big.len()));
                }
                message.extend_from_slice(big);
            } else if mid {
                // mid-size reads: the arena lets go of its current chunk right after the read, with no
                // other allocation in between (the bytes read must be kept alive by the output alone)
                enc.consumer().arena().flush_cache();
            }
            // (only for scripts of even length: for the others the suffix follows the first read at
            // once, so that whatever that read left behind meets the very next bytes)
            if case.script.len() % 2 == 0 {
                let more: &[u8] = &[0x71, 0x72, 0x73];
                let mut reader2 = ScriptReader::new(&[Sym::D1, Sym::DAll], more);
                let got2 = enc.encode_read(&mut reader2, 3, NonZeroUsize::MAX);
                let want2 = judge_trace(&reader2, 3, usize::MAX)?;
                match (&got2, &want2.result) {
                    (Ok(n), Ok(m)) if n == m => message.extend_from_slice(&more[..*n]),
                    (g, w) => return Err(format!("a second encode_read on the same encoder (the reader delivers 1 byte, then the rest) returned {:?} expected {:?}", g.as_ref().map_err(kind_of), w)),
                }
            }
        }
    }
    if case.count >= 65 {
        // the arena moves on to other chunks while the bytes that were read sit in the output
        static TURN: [u8; 9000] = [0x74; 9000];
        enc.encode_copy(&TURN[..5000]);
        message.extend_from_slice(&TURN[..5000]);
        enc.encode_copy(&TURN);
        message.extend_from_slice(&TURN);
    }
    enc.encode(suffix);
    message.extend_from_slice(suffix);
    let out = enc.finish();
    let bytes = out.flatten().map_err(|_| "encoder output still has a pending placeholder after finish".to_string())?;
    let expect = refcodec::encode(&message, refcodec::PROD_FIRST, refcodec::PROD_LATER);
    if bytes != expect {
        return Err(format!("encoder output [{}] expected the encoding of prefix + delivered bytes + suffix [{}]", show(&bytes), show(&expect)));
    }
    for s in out.stable_prefix() {
        let p = s.as_ptr() as usize;
        let in_static = |b: &[u8]| {
            let r = b.as_ptr_range();
            (r.start as usize) <= p && p + s.len() <= (r.end as usize)
        };
        if !(owning_iovec::verif::is_live(p, s.len()) || in_static(suffix) || in_static(prefix) || in_static(src)) {
            return Err("[live] an output slice is neither in a live chunk nor in a caller buffer".into());
        }
    }
    Ok(())
}

fn run_decoder(case: &Case, attempts: NonZeroUsize) -> Result<(), String> {
    // message whose encoding is longer than any count: "abc" FE FD "defgh"
    let small: &[u8] = &[0x61, 0x62, 0x63, 0xFE, 0xFD, 0x64, 0x65, 0x66, 0x67, 0x68];
    let message: &[u8] = if case.count <= 16 { small } else { &source(case.count)[..300_000] };
    let encoded = refcodec::encode(message, refcodec::PROD_FIRST, refcodec::PROD_LATER);
    let pre = 2usize; // bytes fed before the read
    let mut dec = Decoder::new();
    dec.decode_copy(&encoded[..pre]).map_err(|e| format!("decode failed: {}", e))?;
    {
        let mut consumer = dec.consumer();
        prepare_arena(consumer.arena(), case.arena, case.count);
    }
    let mut reader = ScriptReader::new(&case.script, &encoded[pre..]);
    let mut fed = pre;
    let mut drained_early: Vec<u8> = Vec::new();
    match case.entry {
        Entry::DecoderReadN => {
            let got = dec.read_n(&mut reader, case.count, attempts);
            let want = judge_trace(&reader, case.count, case.attempts)?;
            match (&got, &want.result) {
                (Ok(slice), Ok(n)) if slice.slice() == &encoded[pre..pre + n] => {}
                (Err(e), Err(kind)) if kind_of(e) == *kind => {}
                (g, w) => return Err(format!("Decoder::read_n returned {:?} expected {:?}", g.as_ref().map(|s| show(s.slice())).map_err(kind_of), w)),
            }
            // hand the bytes that were read to the decoder explicitly -- but first use the slice as a
            // look-ahead buffer: the consumer drains everything decoded so far and the arena serves
            // another (failing) read; the slice must still hold exactly the bytes that were delivered
            if let Ok(slice) = got {
                {
                    let mut consumer = dec.consumer();
                    for s in consumer.stable_prefix() {
                        drained_early.extend_from_slice(s);
                    }
                    consumer.advance_slices(usize::MAX);
                }
                let _ = dec.read_n(ScriptReader::new(&[Sym::ErrOther], &PATTERN), 8, NonZeroUsize::MAX);
                let _ = dec.read_n(ScriptReader::new(&[Sym::DAll], &PATTERN), 8, NonZeroUsize::MAX).map(drop);
                let n = slice.slice().len();
                if slice.slice() != &encoded[pre..pre + n] {
                    return Err(format!("the slice returned by Decoder::read_n changed after the consumer drained the decoder and the arena served another read: [{}] expected [{}]", show(slice.slice()), show(&encoded[pre..pre + n])));
                }
                fed += n;
                dec.decode_anchored(slice).map_err(|e| format!("decode_anchored failed: {}", e))?;
            }
        }
        _ => {
            let got = dec.decode_read(&mut reader, case.count, attempts);
            let want = judge_trace(&reader, case.count, case.attempts)?;
            match (&got, &want.result) {
                (Ok(n), Ok(m)) if n == m => fed += n,
                (Err(e), Err(kind)) if kind_of(e) == *kind => {}
                (g, w) => return Err(format!("decode_read returned {:?} expected {:?}", g.as_ref().map_err(kind_of), w)),
            }
            // A SECOND read on the same decoder, whatever became of the first one: the reader now has
            // data; it must be called and what it delivers must be decoded.
            if fed + 3 <= encoded.len() && case.script.len() % 2 == 0 {
                let mut reader2 = ScriptReader::new(&[Sym::D1, Sym::DAll], &encoded[fed..fed + 3]);
                let got2 = dec.decode_read(&mut reader2, 3, NonZeroUsize::MAX);
                let want2 = judge_trace(&reader2, 3, usize::MAX)?;
                match (&got2, &want2.result) {
                    (Ok(n), Ok(m)) if n == m => fed += n,
                    (g, w) => return Err(format!("a second decode_read on the same decoder (the reader delivers 1 byte, then the rest) returned {:?} expected {:?}", g.as_ref().map_err(kind_of), w)),
                }
            }
        }
    }
    dec.decode(&encoded[fed..]).map_err(|e| format!("decoding the rest failed: {}", e))?;
    let out = dec.finish().map_err(|e| format!("finish failed: {}", e))?;
    let rest = out.flatten().map_err(|_| "decoder output has a pending placeholder".to_string())?;
    let mut bytes = drained_early;
    bytes.extend_from_slice(&rest);
    if bytes != message {
        return Err(format!("decoder output [{}] expected [{}]", show(&bytes), show(message)));
    }
    Ok(())
}

fn explore(ctx: &Ctx, rep: &mut Report, max_len: usize) {
    // Work units: (first two script symbols) -- scripts shorter than 2 belong to unit 0.
    let mut unit = 0usize;
    let mut script: Vec<Sym> = Vec::new();
    fn rec(ctx: &Ctx, rep: &mut Report, script: &mut Vec<Sym>, max_len: usize, unit: &mut usize) {
        let owned = if script.len() <= 2 {
            let u = *unit;
            *unit += 1;
            ctx.owns(u)
        } else {
            true
        };
        if owned {
            run_script(rep, script);
        }
        if script.len() < max_len && (owned || script.len() < 2) {
            for s in SYMS {
                script.push(s);
                rec(ctx, rep, script, max_len, unit);
                script.pop();
            }
        }
    }
    rec(ctx, rep, &mut script, max_len, &mut unit);
}

fn run_script(rep: &mut Report, script: &[Sym]) {
    for entry in ENTRIES {
        for count in COUNTS {
            for attempts in ATTEMPTS {
                // Scripts longer than the attempt limit behave like their prefix: skip the duplicates
                // (the prefix itself is enumerated), but keep one symbol beyond the limit so that an
                // extra (forbidden) reader call would be observable.
                if attempts != usize::MAX && script.len() > attempts + 1 {
                    continue;
                }
                for arena in ARENA_STATES {
                    if entry != Entry::Arena && !matches!(arena, ArenaState::FreshChunk | ArenaState::RemainingCountMinus1) {
                        continue;
                    }
                    let case = Case { script: script.to_vec(), count, attempts, arena, entry };
                    rep.evaluations += 1;
                    rep.transitions += script.len().min(attempts) as u64 + 1;
                    match run_case(&case) {
                        Ok(()) => {
                            let faulty = script.iter().any(|s| matches!(s, Sym::Intr | Sym::ErrOther | Sym::ErrWouldBlock | Sym::ErrUnexpectedEof | Sym::D1 | Sym::D2));
                            if faulty && count > 0 {
                                rep.nontrivial += 1;
                            }
                            let want = spec(script, count, attempts, PATTERN.len());
                            rep.outcome(hash_of(&(format!("{:?}", want.result), want.calls, entry as u8)));
                            if rep.want_sample() {
                                rep.sample(format!("{} => {:?} after {} reader calls", case.render(), want.result, want.calls));
                            }
                        }
                        Err(e) if !relevant(&e) => {
                            rep.count("cases_failing_only_a_sibling_oracle", 1);
                        }
                        Err(e) => {
                            if run_case(&case).is_ok() {
                                machinery_failure("C17 violation did not reproduce");
                            }
                            let r = case.render();
                            rep.violation(Violation { key: format!("C17:{}", r.replace(' ', ";")), summary: format!("read_n [{}]: {}", r, e), replay_text: format!("case: {}\nobserved: {}\n", r, e) });
                        }
                    }
                }
            }
        }
    }
}

pub const LARGE_COUNTS: [usize; 6] = [64_008, 64_009, 64_010, 70_000, 128_016, 128_017];

/// Counts in the size class between "always copied" (<= 64 bytes) and "always borrowed" (> 256): what
/// was read lands in an arena chunk of its own when the current one is nearly full, and must survive
/// the arena moving on to other chunks while it sits in the codec's output.
fn explore_mid(ctx: &Ctx, rep: &mut Report, unit: &mut usize) {
    let scripts: Vec<Vec<Sym>> = vec![vec![Sym::DAll], vec![Sym::D1, Sym::DAll], vec![Sym::Intr, Sym::DAll], vec![Sym::D2, Sym::Eof], vec![Sym::D1, Sym::ErrOther]];
    for count in [65usize, 70, 100, 256, 257, 300] {
        for script in &scripts {
            let u = *unit;
            *unit += 1;
            if !ctx.owns(u) {
                continue;
            }
            for arena in [ArenaState::FreshChunk, ArenaState::RemainingEqCount, ArenaState::RemainingCountMinus1, ArenaState::RemainingZero, ArenaState::NoCache] {
                for entry in ENTRIES {
                    let case = Case { script: script.clone(), count, attempts: usize::MAX, arena, entry };
                    rep.evaluations += 1;
                    rep.transitions += script.len() as u64 + 1;
                    rep.count("mid_count_cases", 1);
                    match run_case(&case) {
                        Ok(()) => rep.nontrivial += 1,
                        Err(e) if !relevant(&e) => rep.count("cases_failing_only_a_sibling_oracle", 1),
                        Err(e) => {
                            if run_case(&case).as_ref().err() != Some(&e) {
                                machinery_failure(&format!("violation did not reproduce identically: {} / {}", case.render(), e));
                            }
                            let r = case.render();
                            rep.violation(Violation { key: format!("C17:{}", r.replace(' ', ";")), summary: format!("read_n [{}]: {}", r, e), replay_text: format!("case: {}\nobserved: {}\n", r, e) });
                        }
                    }
                }
            }
        }
    }
    rep.note("mid-size counts 65, 70, 100, 256, 257, 300 (between the always-copied and the always-borrowed size classes) x 5 scripts x 5 arena states x 5 entry points; after the read the encoder copies 14 000 more bytes (the arena moves on to other chunks) before the output is compared".to_string());
}

/// Counts beyond one HCOBS chunk (64008 bytes): every script over the large alphabet up to `max_len`.
fn explore_large(ctx: &Ctx, rep: &mut Report, max_len: usize, unit: &mut usize) {
    let mut scripts: Vec<Vec<Sym>> = vec![vec![]];
    let mut frontier: Vec<Vec<Sym>> = vec![vec![]];
    for _ in 0..max_len {
        let mut next = Vec::new();
        for s in &frontier {
            for a in LARGE_SYMS {
                let mut t = s.clone();
                t.push(a);
                next.push(t);
            }
        }
        scripts.extend(next.iter().cloned());
        frontier = next;
    }
    for script in &scripts {
        for count in LARGE_COUNTS {
            let u = *unit;
            *unit += 1;
            if !ctx.owns(u) {
                continue;
            }
            for attempts in [1usize, 2, 3, usize::MAX] {
                if attempts != usize::MAX && script.len() > attempts + 1 {
                    continue;
                }
                for entry in ENTRIES {
                    let case = Case { script: script.clone(), count, attempts, arena: ArenaState::FreshChunk, entry };
                    rep.evaluations += 1;
                    rep.transitions += script.len().min(attempts) as u64 + 1;
                    rep.count("large_count_cases", 1);
                    match run_case(&case) {
                        Ok(()) => {
                            rep.nontrivial += 1;
                            let want = spec(script, count, attempts, 2_300_000);
                            rep.outcome(hash_of(&(format!("{:?}", want.result), want.calls, entry as u8)));
                        }
                        Err(e) if !relevant(&e) => rep.count("cases_failing_only_a_sibling_oracle", 1),
                        Err(e) => {
                            if run_case(&case).is_ok() {
                                machinery_failure("C17 violation did not reproduce");
                            }
                            let r = case.render();
                            rep.violation(Violation { key: format!("C17:{}", r.replace(' ', ";")), summary: format!("read_n [{}]: {}", r, e), replay_text: format!("case: {}\nobserved: {}\n", r, e) });
                        }
                    }
                }
            }
        }
    }
    rep.note(format!("large counts {:?} (beyond one 64008-byte HCOBS chunk): all scripts over {{deliverAll, deliver40000, deliver64008, deliver1, EINTR, EOF, ErrOther, ErrWouldBlock}} up to length {} x attempt limits 1/2/3/MAX x 5 entry points, 400 000-byte source with stuff sequences and lone FE bytes", LARGE_COUNTS, max_len));
}

/// Counts at the arena's largest chunk size class (1 MiB), after an earlier bigger read.
fn explore_one_mib(ctx: &Ctx, rep: &mut Report, unit: &mut usize) {
    let scripts: Vec<Vec<Sym>> = vec![vec![Sym::DAll], vec![], vec![Sym::ErrOther], vec![Sym::Intr, Sym::DAll], vec![Sym::D1, Sym::DAll], vec![Sym::D64008, Sym::Eof]];
    for count in [(1usize << 20) - 1, 1 << 20, (1 << 20) + 1] {
        for script in &scripts {
            let u = *unit;
            *unit += 1;
            if !ctx.owns(u) {
                continue;
            }
            for attempts in [1usize, 2, usize::MAX] {
                for entry in ENTRIES {
                    for arena in [ArenaState::AfterBigRead, ArenaState::FreshChunk] {
                        let case = Case { script: script.clone(), count, attempts, arena, entry };
                        rep.evaluations += 1;
                        rep.transitions += script.len().min(attempts) as u64 + 1;
                        rep.count("one_mib_cases", 1);
                        match run_case(&case) {
                            Ok(()) => rep.nontrivial += 1,
                            Err(e) if !relevant(&e) => rep.count("cases_failing_only_a_sibling_oracle", 1),
                            Err(e) => {
                                if run_case(&case).is_ok() {
                                    machinery_failure("C17 violation did not reproduce");
                                }
                                let r = case.render();
                                rep.violation(Violation { key: format!("C17:{}", r.replace(' ', ";")), summary: format!("read_n [{}]: {}", r, e), replay_text: format!("case: {}\nobserved: {}\n", r, e) });
                            }
                        }
                    }
                }
            }
        }
    }
    rep.note("exact size class: counts 1 MiB - 1, 1 MiB, 1 MiB + 1 on an arena whose current chunk is already at the largest size class (an earlier read of 1 MiB + 1 bytes) and on a fresh one, 6 scripts x attempt limits 1/2/MAX x 5 entry points".to_string());
}

fn run(ctx: &Ctx) -> Report {
    if ctx.prop != "C17" {
        machinery_failure("readn_mc serves C17 only");
    }
    let mut rep = Report::new();
    // C17 is about what read_n returns and does to the codec output; leaks and liveness are C10 / C05
    set_oracles(&[Oracle::Content]);
    let max_len = ctx.tier.pick(6, 7);
    explore(ctx, &mut rep, max_len);
    let mut unit = 0usize;
    explore_large(ctx, &mut rep, ctx.tier.pick(3, 4), &mut unit);
    explore_one_mib(ctx, &mut rep, &mut unit);
    explore_mid(ctx, &mut rep, &mut unit);
    rep.max_depth = max_len as u64;
    rep.note(format!(
        "C17: all reader scripts over {{deliverAll, deliver1, deliver2, EINTR, EOF, ErrOther, ErrWouldBlock, ErrUnexpectedEof}} up to length {} (EOF forever afterwards) x counts {:?} x attempt limits {:?} x 5 arena states (ByteArena::read_n) / 2 arena states (Encoder/Decoder read_n, encode_read, decode_read)",
        max_len, COUNTS, ["1", "2", "3", "5", "MAX"]
    ));
    rep
}

fn replay(_ctx: &Ctx, text: &str) -> Result<String, String> {
    let Some(case) = field(text, "case").and_then(Case::parse) else {
        machinery_failure("cannot parse case");
    };
    match run_case(&case) {
        Err(e) => Ok(format!("[{}] {}", case.render(), e)),
        Ok(()) => Err(format!("[{}] behaves as the read_n specification says", case.render())),
    }
}

fn main() {
    // a runaway execution must die alone (see mc_core::limit_address_space)
    mc_core::limit_address_space(4 << 30);
    main_entry(Engine {
        name: "readn_mc",
        level: |_| "fault_enumeration",
        rule: |_| "every reader script (fault sequence) up to the length bound x every count x attempt limit x arena state x entry point is run on the real read_n / encode_read / decode_read and compared with a specification derived from the statement: number and sizes of reader calls, returned bytes or error kind, arena hand-back, and the codec output after finish. non-trivial = runs whose script contains a short read, an EINTR or an error and count > 0 (all runs are distinct by construction).".into(),
        run,
        replay,
        assumptions: |_| vec!["readers honour Read's contract (never report more than the buffer length)".into(), "codec outputs are compared with the reference encoder of mc_core::refcodec".into()],
        decode_breadcrumb: Some(|ctx, bytes| {
            let text = String::from_utf8_lossy(bytes).to_string();
            if text.trim().is_empty() {
                return None;
            }
            Some((format!("{}:abort:{}", ctx.prop, text.trim().replace(['\n', ' '], ";")), text))
        }),
    });
}
