//! A tiny JSON value + writer (no dependencies).
#[derive(Clone, Debug, PartialEq)]
pub enum J {
    Null,
    Bool(bool),
    Int(i128),
    Float(f64),
    Str(String),
    Arr(Vec<J>),
    Obj(Vec<(String, J)>),
}

impl J {
    pub fn s(x: impl Into<String>) -> J {
        J::Str(x.into())
    }
    pub fn i(x: impl TryInto<i128>) -> J {
        J::Int(x.try_into().ok().expect("int fits"))
    }
    pub fn obj(items: Vec<(&str, J)>) -> J {
        J::Obj(items.into_iter().map(|(k, v)| (k.to_string(), v)).collect())
    }
    pub fn arr_str<S: AsRef<str>>(items: &[S]) -> J {
        J::Arr(items.iter().map(|s| J::s(s.as_ref())).collect())
    }
    pub fn render(&self) -> String {
        let mut out = String::new();
        self.write(&mut out, 0);
        out
    }
    fn write(&self, out: &mut String, indent: usize) {
        match self {
            J::Null => out.push_str("null"),
            J::Bool(b) => out.push_str(if *b { "true" } else { "false" }),
            J::Int(i) => out.push_str(&i.to_string()),
            J::Float(f) => {
                if f.is_finite() {
                    out.push_str(&format!("{:.3}", f))
                } else {
                    out.push_str("0")
                }
            }
            J::Str(s) => write_str(out, s),
            J::Arr(items) => {
                if items.is_empty() {
                    out.push_str("[]");
                    return;
                }
                out.push_str("[\n");
                for (i, item) in items.iter().enumerate() {
                    pad(out, indent + 1);
                    item.write(out, indent + 1);
                    if i + 1 < items.len() {
                        out.push(',');
                    }
                    out.push('\n');
                }
                pad(out, indent);
                out.push(']');
            }
            J::Obj(items) => {
                if items.is_empty() {
                    out.push_str("{}");
                    return;
                }
                out.push_str("{\n");
                for (i, (k, v)) in items.iter().enumerate() {
                    pad(out, indent + 1);
                    write_str(out, k);
                    out.push_str(": ");
                    v.write(out, indent + 1);
                    if i + 1 < items.len() {
                        out.push(',');
                    }
                    out.push('\n');
                }
                pad(out, indent);
                out.push('}');
            }
        }
    }
}

fn pad(out: &mut String, n: usize) {
    for _ in 0..n {
        out.push(' ');
    }
}

fn write_str(out: &mut String, s: &str) {
    out.push('"');
    for c in s.chars() {
        match c {
            '"' => out.push_str("\\\""),
            '\\' => out.push_str("\\\\"),
            '\n' => out.push_str("\\n"),
            '\r' => out.push_str("\\r"),
            '\t' => out.push_str("\\t"),
            c if (c as u32) < 0x20 => out.push_str(&format!("\\u{:04x}", c as u32)),
            c => out.push(c),
        }
    }
    out.push('"');
}
