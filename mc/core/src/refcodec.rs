//! Independent, non-streaming reference HCOBS codec, written from the format
//! description (https://pvk.ca/Blog/2021/01/11/stuff-your-logs/ and the
//! property statements), parameterised by the two chunk limits.  The
//! production limits and radix are literals here, NOT imported from `hcobs`.

pub const PROD_FIRST: usize = 252;
pub const PROD_LATER: usize = 64008;
pub const RADIX: usize = 253;
pub const STUFF: [u8; 2] = [0xFE, 0xFD];

/// Greedy canonical encoder.
///
/// window = next min(limit, rest) bytes; the first FE FD fully inside the
/// window ends the chunk (and is dropped); else a full window is a full chunk;
/// else the remainder is the (short) last chunk.  A message that ends right
/// after a full chunk or a stuff sequence gets an empty last chunk.  Header =
/// little-endian radix-253 digits: 1 byte for the first chunk, 2 after.
pub fn encode(data: &[u8], first: usize, later: usize) -> Vec<u8> {
    let mut out = Vec::with_capacity(data.len() + 3 + 2 * (data.len() / later.max(1)));
    let mut pos = 0usize;
    let mut chunk_index = 0usize;
    loop {
        let limit = if chunk_index == 0 { first } else { later };
        let window_end = data.len().min(pos + limit);
        let window = &data[pos..window_end];
        let stuff_at = window.windows(2).position(|w| w == STUFF);
        let (size, advance, last) = match stuff_at {
            Some(idx) => (idx, idx + 2, false),
            None if window.len() == limit => (limit, limit, false),
            None => (window.len(), window.len(), true),
        };
        if chunk_index == 0 {
            out.push(size as u8);
        } else {
            out.push((size % RADIX) as u8);
            out.push((size / RADIX) as u8);
        }
        out.extend_from_slice(&data[pos..pos + size]);
        pos += advance;
        chunk_index += 1;
        if last {
            return out;
        }
    }
}

/// Exact decoder: Some(bytes) iff `enc` is a well-formed chunk sequence that
/// ends on a short chunk.  A short chunk stands for "chunk bytes + FE FD",
/// except that the final chunk's implicit stuff sequence is not emitted.
pub fn decode(enc: &[u8], first: usize, later: usize) -> Option<Vec<u8>> {
    let mut out = Vec::new();
    let mut pos = 0usize;
    let mut chunk_index = 0usize;
    let mut pending_stuff = false;
    let mut last_was_short = false;
    while pos < enc.len() {
        let (size, limit) = if chunk_index == 0 {
            let b = enc[pos] as usize;
            pos += 1;
            if b > first {
                return None;
            }
            (b, first)
        } else {
            if pos + 2 > enc.len() {
                // truncated inside a header
                if enc[pos] as usize >= RADIX {
                    return None;
                }
                return None;
            }
            let lo = enc[pos] as usize;
            let hi = enc[pos + 1] as usize;
            pos += 2;
            if lo >= RADIX || hi >= RADIX {
                return None;
            }
            let size = lo + hi * RADIX;
            if size > later {
                return None;
            }
            (size, later)
        };
        if pending_stuff {
            out.extend_from_slice(&STUFF);
        }
        if pos + size > enc.len() {
            return None; // truncated inside a chunk
        }
        out.extend_from_slice(&enc[pos..pos + size]);
        pos += size;
        pending_stuff = size < limit;
        last_was_short = size < limit;
        chunk_index += 1;
    }
    if chunk_index == 0 || !last_was_short {
        return None;
    }
    Some(out)
}

pub fn contains_stuff(bytes: &[u8]) -> bool {
    bytes.windows(2).any(|w| w == STUFF)
}

pub fn find_stuff(bytes: &[u8]) -> Option<usize> {
    bytes.windows(2).position(|w| w == STUFF)
}

#[cfg(test)]
mod tests {
    use super::*;
    #[test]
    fn smoke() {
        assert_eq!(encode(b"", 252, 64008), vec![0]);
        assert_eq!(encode(b"a", 252, 64008), vec![1, b'a']);
        assert_eq!(encode(&[0xFE, 0xFD], 252, 64008), vec![0, 0, 0]);
        assert_eq!(decode(&[0, 0, 0], 252, 64008), Some(vec![0xFE, 0xFD]));
        assert_eq!(decode(&[], 252, 64008), None);
        let data: Vec<u8> = (0..1000u32).map(|i| (i % 251) as u8).collect();
        assert_eq!(decode(&encode(&data, 252, 64008), 252, 64008), Some(data));
    }
}
