//! mc_core: shared plumbing for the woodpile model-checking engines.
//!
//! * argument parsing (`--prop`, `--tier`, `--out`, `--worker i/n`, `--replay`);
//! * process-level partitioning (the parent re-execs itself as N workers; the
//!   oracles read process-global counters, so threads will not do);
//! * mergeable reports, replay artefacts, known-findings matching;
//! * panic capture;
//! * exit codes: 0 = held on everything explored, 1 = violation (a
//!   `VIOLATION property=<id> replay=<path>` line was printed), 2 = machinery
//!   failure (no verdict).
pub mod json;
pub mod refcodec;

use json::J;
use std::collections::BTreeMap;
use std::collections::HashSet;
use std::hash::Hash;
use std::hash::Hasher;
use std::io::Write;
use std::path::PathBuf;
use std::time::Duration;
use std::time::Instant;

pub const VERIF_ROOT: &str = "/verif";

#[derive(Clone, Copy, Debug, PartialEq, Eq)]
pub enum Tier {
    Quick,
    Thorough,
}

impl Tier {
    pub fn name(self) -> &'static str {
        match self {
            Tier::Quick => "quick",
            Tier::Thorough => "thorough",
        }
    }
    pub fn pick<T>(self, quick: T, thorough: T) -> T {
        match self {
            Tier::Quick => quick,
            Tier::Thorough => thorough,
        }
    }
}

#[derive(Clone, Debug)]
pub struct Ctx {
    pub engine: String,
    pub prop: String,
    pub tier: Tier,
    pub seed: i64,
    pub out: Option<PathBuf>,
    pub worker: Option<(usize, usize)>,
    pub replay: Option<PathBuf>,
    pub nworkers: usize,
    pub extra: Vec<String>,
    pub start: Instant,
    /// Wall budget for exploration (engines stop cleanly and report what was completed).
    pub wall_cap: Duration,
}

impl Ctx {
    pub fn elapsed(&self) -> f64 {
        self.start.elapsed().as_secs_f64()
    }
    pub fn out_of_time(&self) -> bool {
        self.start.elapsed() >= self.wall_cap
    }
    /// Does this worker own work unit `idx`?
    pub fn owns(&self, idx: usize) -> bool {
        match self.worker {
            Some((i, n)) => idx % n == i,
            None => true,
        }
    }
    pub fn has_flag(&self, flag: &str) -> bool {
        self.extra.iter().any(|x| x == flag)
    }
    pub fn flag_value(&self, flag: &str) -> Option<String> {
        let prefix = format!("{}=", flag);
        self.extra
            .iter()
            .find_map(|x| x.strip_prefix(&prefix).map(|s| s.to_string()))
    }
}

pub fn machinery_failure(msg: &str) -> ! {
    eprintln!("MACHINERY-FAILURE: {}", msg);
    std::process::exit(2);
}

pub fn parse_args(engine: &str) -> Ctx {
    let mut args = std::env::args().skip(1);
    let mut ctx = Ctx {
        engine: engine.to_string(),
        prop: String::new(),
        tier: Tier::Quick,
        seed: std::env::var("VERIF_SEED")
            .ok()
            .and_then(|s| s.parse().ok())
            .unwrap_or(0),
        out: None,
        worker: None,
        replay: None,
        nworkers: std::env::var("VERIF_WORKERS")
            .ok()
            .and_then(|s| s.parse().ok())
            .unwrap_or_else(|| {
                std::thread::available_parallelism()
                    .map(|x| x.get())
                    .unwrap_or(4)
                    .min(16)
            }),
        extra: Vec::new(),
        start: Instant::now(),
        wall_cap: Duration::from_secs(3600),
    };
    while let Some(arg) = args.next() {
        match arg.as_str() {
            "--prop" => ctx.prop = args.next().unwrap_or_default(),
            "--tier" => {
                ctx.tier = match args.next().as_deref() {
                    Some("quick") => Tier::Quick,
                    Some("thorough") => Tier::Thorough,
                    other => machinery_failure(&format!("bad tier {:?}", other)),
                }
            }
            "--out" => ctx.out = args.next().map(PathBuf::from),
            "--replay" => ctx.replay = args.next().map(PathBuf::from),
            "--worker" => {
                let spec = args.next().unwrap_or_default();
                let mut it = spec.split('/');
                let i = it.next().and_then(|x| x.parse().ok());
                let n = it.next().and_then(|x| x.parse().ok());
                match (i, n) {
                    (Some(i), Some(n)) => ctx.worker = Some((i, n)),
                    _ => machinery_failure("bad --worker"),
                }
            }
            "--wall-cap" => {
                let secs: u64 = args
                    .next()
                    .and_then(|x| x.parse().ok())
                    .unwrap_or_else(|| machinery_failure("bad --wall-cap"));
                ctx.wall_cap = Duration::from_secs(secs);
            }
            other => ctx.extra.push(other.to_string()),
        }
    }
    if ctx.prop.is_empty() {
        machinery_failure("missing --prop");
    }
    ctx
}

// ---------------------------------------------------------------------------
// oracle selection: a check asserts only what ITS property states.  The engines share
// executions between sibling properties, so each oracle is switched on by the properties that
// state it; an execution that violates a sibling property only must not raise this one's alarm.

#[derive(Clone, Copy, Debug, PartialEq, Eq)]
#[repr(u32)]
pub enum Oracle {
    /// nothing still alive after everything was dropped (C10)
    Leak = 1,
    /// every exposed slice lies in live memory (C05; also C03/C04/C20 where a dangling slice makes the contents claim meaningless)
    Liveness = 2,
    /// output equals the canonical encoding / decoder agrees with the reference decoder (C07)
    Canonical = 4,
    /// decode(encode(x)) == x through the real codec on both sides (C01)
    RoundTrip = 8,
    /// no FE FD in the output, output independent of splits / methods / drains, length bound (C02)
    OutputShape = 16,
    /// drained bytes are a prefix of the final output, drain return values, lag bounds (C09)
    PrefixLag = 32,
    /// streaming footprint bounds (C10)
    Footprint = 64,
    /// contents / return values / record lists / tilings against the reference model
    Content = 128,
}

/// Violation descriptions carry a class tag in front ("[leak] ...").  A description is relevant
/// to the running check iff its class is switched on; untagged descriptions (panics, aborts,
/// harness-independent failures) are always relevant: a panic on a valid history falsifies any
/// "for every history ... afterwards" claim.
pub fn relevant(msg: &str) -> bool {
    let body = msg.trim_start();
    let mut tagged = false;
    // a description may carry several class tags (a failure that falsifies several properties):
    // it is relevant iff one of them is switched on.  Tags may be preceded by a step prefix such as "step 3 (A:push(1)): " or "after the last step: "
    for (tag, o) in [
        ("[leak]", Oracle::Leak),
        ("[live]", Oracle::Liveness),
        ("[canon]", Oracle::Canonical),
        ("[roundtrip]", Oracle::RoundTrip),
        ("[shape]", Oracle::OutputShape),
        ("[prefix]", Oracle::PrefixLag),
        ("[footprint]", Oracle::Footprint),
        ("[content]", Oracle::Content),
    ] {
        if body.contains(tag) {
            tagged = true;
            if oracle(o) {
                return true;
            }
        }
    }
    !tagged
}

static ORACLES: std::sync::atomic::AtomicU32 = std::sync::atomic::AtomicU32::new(u32::MAX);

pub fn set_oracles(list: &[Oracle]) {
    let mut mask = 0u32;
    for o in list {
        mask |= *o as u32;
    }
    ORACLES.store(mask, std::sync::atomic::Ordering::Relaxed);
}

#[inline]
pub fn oracle(o: Oracle) -> bool {
    ORACLES.load(std::sync::atomic::Ordering::Relaxed) & (o as u32) != 0
}

// ---------------------------------------------------------------------------
// hashing

pub fn hash_of<T: Hash + ?Sized>(value: &T) -> u64 {
    let mut h = std::collections::hash_map::DefaultHasher::new();
    value.hash(&mut h);
    h.finish()
}

// ---------------------------------------------------------------------------
// reports

#[derive(Clone, Debug)]
pub struct Violation {
    /// Canonical identification of the failing input/history (matched against known_findings.txt).
    pub key: String,
    /// One-line description of what fails.
    pub summary: String,
    /// Full replay artefact text (choice list, rendering, expected vs observed).
    pub replay_text: String,
}

#[derive(Clone, Debug, Default)]
pub struct Report {
    /// executions (cases / histories / schedules) run on the real code
    pub evaluations: u64,
    /// operation applications on the real code
    pub transitions: u64,
    /// executions that are non-trivial by the engine's stated rule
    pub nontrivial: u64,
    /// hashes of distinct reference-model states reached
    pub states: HashSet<u64>,
    /// hashes of distinct observable outcomes (vacuity detector)
    pub outcomes: HashSet<u64>,
    pub max_depth: u64,
    pub samples: Vec<String>,
    /// extra numeric coverage; keys starting with "max_" merge by max, others by sum
    pub counters: BTreeMap<String, u64>,
    /// caps hit, bounds completed, ...
    pub notes: Vec<String>,
    pub violations: Vec<Violation>,
    /// number of violations beyond those kept in `violations`
    pub violations_dropped: u64,
    pub not_exhaustive: bool,
    pub state_cap_hit: bool,
    pub sample_ticks: u64,
}

pub const MAX_KEPT_VIOLATIONS: usize = 8;
pub const MAX_SAMPLES: usize = 12;
pub const STATE_CAP: usize = 6_000_000;

impl Report {
    pub fn new() -> Self {
        Default::default()
    }
    pub fn count(&mut self, name: &str, by: u64) {
        *self.counters.entry(name.to_string()).or_insert(0) += by;
    }
    pub fn count_max(&mut self, name: &str, value: u64) {
        assert!(name.starts_with("max_"));
        let slot = self.counters.entry(name.to_string()).or_insert(0);
        *slot = (*slot).max(value);
    }
    pub fn state(&mut self, h: u64) {
        if self.states.len() < STATE_CAP {
            self.states.insert(h);
        } else {
            self.state_cap_hit = true;
        }
    }
    pub fn outcome(&mut self, h: u64) {
        if self.outcomes.len() < STATE_CAP {
            self.outcomes.insert(h);
        }
    }
    /// Sampling decision: true for the 1st, 2nd, 5th, 10th, 20th, 50th, 100th, ... opportunity
    /// (an internal counter of calls, so engines may ask at any granularity).
    pub fn want_sample(&mut self) -> bool {
        self.sample_ticks += 1;
        if self.samples.len() >= MAX_SAMPLES {
            return false;
        }
        let n = self.sample_ticks;
        let mut p = 1u64;
        loop {
            if n == p || n == 2 * p || n == 5 * p {
                return true;
            }
            if p > n / 10 + 1 {
                return false;
            }
            p = p.saturating_mul(10);
        }
    }
    pub fn sample(&mut self, text: String) {
        if self.samples.len() < MAX_SAMPLES + 4 {
            self.samples.push(text);
        }
    }
    pub fn note(&mut self, text: impl Into<String>) {
        let text = text.into();
        if !self.notes.contains(&text) {
            self.notes.push(text);
        }
    }
    pub fn violation(&mut self, v: Violation) {
        if self.violations.iter().any(|x| x.key == v.key) {
            return;
        }
        if self.violations.len() < MAX_KEPT_VIOLATIONS {
            self.violations.push(v);
        } else {
            self.violations_dropped += 1;
        }
    }
    pub fn merge(&mut self, other: Report) {
        self.evaluations += other.evaluations;
        self.transitions += other.transitions;
        self.nontrivial += other.nontrivial;
        for h in other.states {
            self.state(h);
        }
        for h in other.outcomes {
            self.outcome(h);
        }
        self.max_depth = self.max_depth.max(other.max_depth);
        for s in other.samples {
            if self.samples.len() < MAX_SAMPLES + 4 {
                self.samples.push(s);
            }
        }
        for (k, v) in other.counters {
            if k.starts_with("max_") {
                self.count_max(&k, v);
            } else {
                self.count(&k, v);
            }
        }
        for n in other.notes {
            self.note(n);
        }
        for v in other.violations {
            self.violation(v);
        }
        self.violations_dropped += other.violations_dropped;
        self.not_exhaustive |= other.not_exhaustive;
        self.state_cap_hit |= other.state_cap_hit;
    }

    // --- worker <-> parent wire format (line based) -----------------------
    fn serialize(&self, dir: &std::path::Path, idx: usize) -> std::io::Result<()> {
        let mut out = String::new();
        out.push_str(&format!("evaluations {}\n", self.evaluations));
        out.push_str(&format!("transitions {}\n", self.transitions));
        out.push_str(&format!("nontrivial {}\n", self.nontrivial));
        out.push_str(&format!("max_depth {}\n", self.max_depth));
        out.push_str(&format!("violations_dropped {}\n", self.violations_dropped));
        out.push_str(&format!("not_exhaustive {}\n", self.not_exhaustive as u8));
        out.push_str(&format!("state_cap_hit {}\n", self.state_cap_hit as u8));
        for (k, v) in &self.counters {
            out.push_str(&format!("counter {} {}\n", k, v));
        }
        for s in &self.samples {
            out.push_str(&format!("sample {}\n", esc(s)));
        }
        for s in &self.notes {
            out.push_str(&format!("note {}\n", esc(s)));
        }
        for v in &self.violations {
            out.push_str(&format!(
                "violation {}\t{}\t{}\n",
                esc(&v.key),
                esc(&v.summary),
                esc(&v.replay_text)
            ));
        }
        let dump = |name: &str, set: &HashSet<u64>| -> std::io::Result<()> {
            let mut bytes = Vec::with_capacity(set.len() * 8);
            for h in set {
                bytes.extend_from_slice(&h.to_le_bytes());
            }
            std::fs::write(dir.join(format!("{}.{}", idx, name)), bytes)
        };
        dump("states", &self.states)?;
        dump("outcomes", &self.outcomes)?;
        std::fs::write(dir.join(format!("{}.rep", idx)), out)
    }

    fn deserialize(dir: &std::path::Path, idx: usize) -> std::io::Result<Report> {
        let text = std::fs::read_to_string(dir.join(format!("{}.rep", idx)))?;
        let mut rep = Report::new();
        for line in text.lines() {
            let (head, rest) = line.split_once(' ').unwrap_or((line, ""));
            match head {
                "evaluations" => rep.evaluations = rest.parse().unwrap_or(0),
                "transitions" => rep.transitions = rest.parse().unwrap_or(0),
                "nontrivial" => rep.nontrivial = rest.parse().unwrap_or(0),
                "max_depth" => rep.max_depth = rest.parse().unwrap_or(0),
                "violations_dropped" => rep.violations_dropped = rest.parse().unwrap_or(0),
                "not_exhaustive" => rep.not_exhaustive = rest == "1",
                "state_cap_hit" => rep.state_cap_hit = rest == "1",
                "counter" => {
                    if let Some((k, v)) = rest.split_once(' ') {
                        rep.counters.insert(k.to_string(), v.parse().unwrap_or(0));
                    }
                }
                "sample" => rep.samples.push(unesc(rest)),
                "note" => rep.notes.push(unesc(rest)),
                "violation" => {
                    let mut it = rest.split('\t');
                    let key = unesc(it.next().unwrap_or(""));
                    let summary = unesc(it.next().unwrap_or(""));
                    let replay_text = unesc(it.next().unwrap_or(""));
                    rep.violations.push(Violation {
                        key,
                        summary,
                        replay_text,
                    });
                }
                _ => {}
            }
        }
        let load = |name: &str| -> std::io::Result<HashSet<u64>> {
            let bytes = std::fs::read(dir.join(format!("{}.{}", idx, name)))?;
            Ok(bytes
                .chunks_exact(8)
                .map(|c| u64::from_le_bytes(c.try_into().unwrap()))
                .collect())
        };
        rep.states = load("states")?;
        rep.outcomes = load("outcomes")?;
        Ok(rep)
    }
}

fn esc(s: &str) -> String {
    s.replace('\\', "\\\\")
        .replace('\n', "\\n")
        .replace('\t', "\\t")
}

fn unesc(s: &str) -> String {
    let mut out = String::new();
    let mut it = s.chars();
    while let Some(c) = it.next() {
        if c == '\\' {
            match it.next() {
                Some('n') => out.push('\n'),
                Some('t') => out.push('\t'),
                Some('\\') => out.push('\\'),
                Some(o) => {
                    out.push('\\');
                    out.push(o)
                }
                None => out.push('\\'),
            }
        } else {
            out.push(c);
        }
    }
    out
}

// ---------------------------------------------------------------------------
// panic capture

thread_local! {
    static LAST_PANIC: std::cell::RefCell<Option<String>> = const { std::cell::RefCell::new(None) };
}

/// Installs a silent panic hook that records the panic message (per thread).
pub fn install_quiet_panic_hook() {
    std::panic::set_hook(Box::new(|info| {
        let msg = if let Some(s) = info.payload().downcast_ref::<&str>() {
            s.to_string()
        } else if let Some(s) = info.payload().downcast_ref::<String>() {
            s.clone()
        } else {
            "<non-string panic>".to_string()
        };
        let loc = info
            .location()
            .map(|l| format!("{}:{}", l.file(), l.line()))
            .unwrap_or_default();
        if std::env::var_os("VERIF_LOUD_PANICS").is_some() {
            eprintln!("panic: {} @ {}", msg, loc);
        }
        LAST_PANIC.with(|slot| *slot.borrow_mut() = Some(format!("{} @ {}", msg, loc)));
    }));
}

/// Runs `f`, converting a panic into `Err(message)`.
pub fn catch<T>(f: impl FnOnce() -> T) -> Result<T, String> {
    match std::panic::catch_unwind(std::panic::AssertUnwindSafe(f)) {
        Ok(v) => Ok(v),
        Err(_) => Err(LAST_PANIC
            .with(|slot| slot.borrow_mut().take())
            .unwrap_or_else(|| "<panic>".to_string())),
    }
}

// ---------------------------------------------------------------------------
// breadcrumbs: turning a process abort inside the code under test into a verdict
//
// std's debug assertions include non-unwinding "unsafe precondition violated"
// checks, and a panic while panicking aborts too.  A worker that dies this way
// while executing the code under test has found something; the engine leaves a
// breadcrumb (the replay text of the execution in progress) that a SIGABRT
// handler writes out before exiting with status 70.

pub const ABORT_EXIT_CODE: i32 = 70;
const CRUMB_CAP: usize = 1 << 20;
static mut CRUMB: [u8; CRUMB_CAP] = [0; CRUMB_CAP];
static CRUMB_LEN: std::sync::atomic::AtomicUsize = std::sync::atomic::AtomicUsize::new(0);
static mut ABORT_PATH: [u8; 512] = [0; 512];

/// Records the replay text of the execution about to run (cheap: one memcpy).
#[inline]
pub fn set_breadcrumb(bytes: &[u8]) {
    HEARTBEAT.fetch_add(1, std::sync::atomic::Ordering::Relaxed);
    let n = bytes.len().min(CRUMB_CAP);
    unsafe {
        let dst = std::ptr::addr_of_mut!(CRUMB) as *mut u8;
        std::ptr::copy_nonoverlapping(bytes.as_ptr(), dst, n);
    }
    CRUMB_LEN.store(n, std::sync::atomic::Ordering::Release);
}

pub fn clear_breadcrumb() {
    CRUMB_LEN.store(0, std::sync::atomic::Ordering::Release);
}

extern "C" fn on_abort(_sig: libc::c_int) {
    unsafe {
        let n = CRUMB_LEN.load(std::sync::atomic::Ordering::Acquire);
        let path = std::ptr::addr_of!(ABORT_PATH) as *const libc::c_char;
        if n > 0 && *path != 0 {
            let fd = libc::open(path, libc::O_WRONLY | libc::O_CREAT | libc::O_TRUNC, 0o644);
            if fd >= 0 {
                let src = std::ptr::addr_of!(CRUMB) as *const libc::c_void;
                let _ = libc::write(fd, src, n);
                libc::close(fd);
            }
            libc::_exit(ABORT_EXIT_CODE);
        }
        libc::_exit(134);
    }
}

fn install_abort_handler(path: &std::path::Path) {
    let bytes = path.to_string_lossy().into_owned().into_bytes();
    if bytes.len() >= 511 {
        return;
    }
    unsafe {
        let dst = std::ptr::addr_of_mut!(ABORT_PATH) as *mut u8;
        std::ptr::copy_nonoverlapping(bytes.as_ptr(), dst, bytes.len());
        *dst.add(bytes.len()) = 0;
        libc::signal(libc::SIGABRT, on_abort as *const () as usize);
        // A wild read or write (SIGSEGV / SIGBUS: e.g. a store into a caller's read-only buffer),
        // or an illegal instruction, is handled the same way, on an alternate stack so that a
        // stack overflow is survivable too.
        static mut ALT_STACK: [u8; 1 << 16] = [0; 1 << 16];
        let ss = libc::stack_t { ss_sp: std::ptr::addr_of_mut!(ALT_STACK) as *mut libc::c_void, ss_flags: 0, ss_size: 1 << 16 };
        libc::sigaltstack(&ss, std::ptr::null_mut());
        for sig in [libc::SIGSEGV, libc::SIGBUS, libc::SIGILL, libc::SIGFPE] {
            let mut sa: libc::sigaction = std::mem::zeroed();
            sa.sa_sigaction = on_abort as *const () as usize;
            sa.sa_flags = libc::SA_ONSTACK;
            libc::sigemptyset(&mut sa.sa_mask);
            libc::sigaction(sig, &sa, std::ptr::null_mut());
        }
    }
}

/// Re-executes a violation's artefact in a fresh process of this executable (`--replay`): for
/// failures that involve process-global state of the code under test (a static cache, a
/// thread-local), which a second run in the same process cannot show again.
pub fn reproduces_in_fresh_process(prop: &str, replay_text: &str) -> bool {
    fresh_process_verdict(prop, replay_text).is_some()
}

/// Runs one artefact in a fresh process; Some(description) if that process reports the violation.
pub fn fresh_process_verdict(prop: &str, replay_text: &str) -> Option<String> {
    let exe = std::env::current_exe().ok()?;
    let path = std::env::temp_dir().join(format!("verif-fresh-{}-{}.txt", std::process::id(), hash_of(&replay_text)));
    std::fs::write(&path, format!("---\n{}\n", replay_text)).ok()?;
    let out = std::process::Command::new(exe).args(["--prop", prop, "--replay"]).arg(&path).stderr(std::process::Stdio::null()).output();
    let _ = std::fs::remove_file(&path);
    let out = out.ok()?;
    if out.status.code() != Some(1) {
        return None;
    }
    let text = String::from_utf8_lossy(&out.stdout);
    Some(text.lines().find_map(|l| l.strip_prefix("REPLAY reproduces the violation: ")).unwrap_or("violation").to_string())
}

#[allow(dead_code)]
fn reproduces_in_fresh_process_old(prop: &str, replay_text: &str) -> bool {
    let Ok(exe) = std::env::current_exe() else { return false };
    let path = std::env::temp_dir().join(format!("verif-fresh-replay-{}-{}.txt", std::process::id(), hash_of(&replay_text)));
    if std::fs::write(&path, format!("---\n{}\n", replay_text)).is_err() {
        return false;
    }
    let status = std::process::Command::new(exe)
        .args(["--prop", prop, "--replay"])
        .arg(&path)
        .stdout(std::process::Stdio::null())
        .stderr(std::process::Stdio::null())
        .status();
    let _ = std::fs::remove_file(&path);
    matches!(status.map(|s| s.code()), Ok(Some(1)))
}

// ---------------------------------------------------------------------------
// known findings

#[derive(Clone, Debug)]
pub struct KnownFinding {
    pub property: String,
    pub key: String,
    pub what: String,
}

/// Parses /verif/known_findings.txt.  Lines:
///   known: property=<id> key=<key> <what fails>
///   fixed: property=<id> <commit> <what failed>        (suppresses nothing)
pub fn load_known_findings() -> Vec<KnownFinding> {
    let path = format!("{}/known_findings.txt", VERIF_ROOT);
    let Ok(text) = std::fs::read_to_string(path) else {
        return Vec::new();
    };
    let mut out = Vec::new();
    for line in text.lines() {
        let line = line.trim();
        let Some(rest) = line.strip_prefix("known:") else {
            continue;
        };
        let mut property = String::new();
        let mut key = String::new();
        let mut what = Vec::new();
        for tok in rest.split_whitespace() {
            if let Some(p) = tok.strip_prefix("property=") {
                property = p.to_string();
            } else if let Some(k) = tok.strip_prefix("key=") {
                key = k.to_string();
            } else {
                what.push(tok);
            }
        }
        out.push(KnownFinding {
            property,
            key,
            what: what.join(" "),
        });
    }
    out
}

// ---------------------------------------------------------------------------
// driver

/// What an engine provides.
pub struct Engine {
    pub name: &'static str,
    /// evidence level for a property: "model_checking" | "fault_enumeration" | "exploration"
    pub level: fn(&str) -> &'static str,
    /// rule text for the evidence (how cases are enumerated, what counts as non-trivial)
    pub rule: fn(&Ctx) -> String,
    /// explore this worker's share of the space
    pub run: fn(&Ctx) -> Report,
    /// replay one artefact; returns Ok(description) if it reproduces the violation,
    /// Err(description) if the replay passes
    pub replay: fn(&Ctx, &str) -> Result<String, String>,
    /// assumptions / trusted base
    pub assumptions: fn(&Ctx) -> Vec<String>,
    /// turns a breadcrumb left by an aborted worker into (key, replay text); None = engine leaves no breadcrumbs
    pub decode_breadcrumb: Option<fn(&Ctx, &[u8]) -> Option<(String, String)>>,
}

fn work_dir(ctx: &Ctx) -> PathBuf {
    let exe = std::env::current_exe().unwrap_or_else(|_| PathBuf::from("."));
    let base = exe
        .parent()
        .map(|p| p.to_path_buf())
        .unwrap_or_else(|| PathBuf::from("."));
    let suffix = std::env::var("VERIF_WORK_SUFFIX").map(|s| format!("-{}", s)).unwrap_or_default();
    base.join("work")
        .join(format!("{}-{}-{}{}", ctx.engine, ctx.prop, ctx.tier.name(), suffix))
}

pub fn main_entry(engine: Engine) -> ! {
    let ctx = parse_args(engine.name);
    install_quiet_panic_hook();

    if let Some(path) = ctx.replay.clone() {
        let text = std::fs::read_to_string(&path)
            .unwrap_or_else(|e| machinery_failure(&format!("cannot read replay {:?}: {}", path, e)));
        if let Some(spec) = field(&text, "rerun-worker") {
            // the process dies only in the heap state its worker had built up: re-run that worker's share
            let tier = field(&text, "tier").unwrap_or("quick").to_string();
            let exe = std::env::current_exe().unwrap_or_else(|e| machinery_failure(&format!("{}", e)));
            std::env::set_var("VERIF_WORK_SUFFIX", "replay");
            let dir = work_dir(&ctx);
            let _ = std::fs::remove_dir_all(&dir);
            let _ = std::fs::create_dir_all(&dir);
            let status = std::process::Command::new(&exe)
                .args(["--prop", &ctx.prop, "--tier", &tier, "--worker", spec.trim()])
                .env("VERIF_WORK_SUFFIX", "replay")
                .stdout(std::process::Stdio::null())
                .stderr(std::process::Stdio::null())
                .status();
            let _ = std::fs::remove_dir_all(&dir);
            match status.map(|s| s.code()) {
                Ok(Some(ABORT_EXIT_CODE)) | Ok(None) | Ok(Some(134)) => {
                    println!("REPLAY reproduces the violation: worker {} dies again", spec.trim());
                    println!("VIOLATION property={} replay={}", ctx.prop, path.display());
                    std::process::exit(1);
                }
                other => {
                    println!("REPLAY passes on this tree: worker {} finished with {:?}", spec.trim(), other);
                    std::process::exit(0);
                }
            }
        }
        if engine.decode_breadcrumb.is_some() {
            // an abort while replaying is the violation reproducing itself
            let marker = PathBuf::from(format!("{}.abort-marker", path.display()));
            let _ = std::fs::remove_file(&marker);
            install_abort_handler(&marker);
            set_breadcrumb(b"aborted while replaying");
        }
        match (engine.replay)(&ctx, &text) {
            Ok(desc) => {
                println!("REPLAY reproduces the violation: {}", desc);
                println!("VIOLATION property={} replay={}", ctx.prop, path.display());
                std::process::exit(1);
            }
            Err(desc) => {
                println!("REPLAY passes on this tree: {}", desc);
                std::process::exit(0);
            }
        }
    }

    if ctx.worker.is_some() {
        let dir = work_dir(&ctx);
        if engine.decode_breadcrumb.is_some() {
            install_abort_handler(&dir.join(format!("{}.abort", ctx.worker.unwrap().0)));
        }
        let rep = (engine.run)(&ctx);
        if let Err(e) = rep.serialize(&dir, ctx.worker.unwrap().0) {
            machinery_failure(&format!("worker cannot write its report: {}", e));
        }
        std::process::exit(0);
    }

    // parent
    let dir = work_dir(&ctx);
    let _ = std::fs::remove_dir_all(&dir);
    if let Err(e) = std::fs::create_dir_all(&dir) {
        machinery_failure(&format!("cannot create {:?}: {}", dir, e));
    }
    let exe = std::env::current_exe().unwrap_or_else(|e| machinery_failure(&format!("{}", e)));
    let n = ctx.nworkers.max(1);
    let mut children = Vec::new();
    for i in 0..n {
        let mut cmd = std::process::Command::new(&exe);
        cmd.args(std::env::args().skip(1))
            .arg("--worker")
            .arg(format!("{}/{}", i, n));
        match cmd.spawn() {
            Ok(child) => children.push(child),
            Err(e) => machinery_failure(&format!("cannot spawn worker: {}", e)),
        }
    }
    let mut failed = Vec::new();
    let mut aborted: Vec<usize> = Vec::new();
    for (i, mut child) in children.into_iter().enumerate() {
        match child.wait() {
            Ok(status) if status.success() => {}
            Ok(status) if status.code() == Some(ABORT_EXIT_CODE) && engine.decode_breadcrumb.is_some() => aborted.push(i),
            Ok(status) => failed.push(format!("worker {} exited with {:?}", i, status)),
            Err(e) => failed.push(format!("worker {}: {}", i, e)),
        }
    }
    let mut total = Report::new();
    for i in 0..n {
        if aborted.contains(&i) || failed.iter().any(|f| f.starts_with(&format!("worker {} ", i)) || f.starts_with(&format!("worker {}:", i))) {
            continue;
        }
        match Report::deserialize(&dir, i) {
            Ok(rep) => total.merge(rep),
            Err(e) => machinery_failure(&format!("cannot read worker {} report: {}", i, e)),
        }
    }
    // A worker that died inside the code under test (abort, SIGSEGV, ...) left a breadcrumb: the
    // execution in progress.  It is replayed in a fresh child; if that child dies (or reports the
    // violation) again it is a verdict.  If not, the death depends on the heap state the worker
    // had built up (memory corruption): the worker's whole share is re-run, and dying again at the
    // same execution is a verdict too.  Anything else is a machinery failure.
    let mut unexplained: Vec<String> = Vec::new();
    for i in aborted {
        let crumb = std::fs::read(dir.join(format!("{}.abort", i))).unwrap_or_default();
        let Some((key, replay_text)) = (engine.decode_breadcrumb.unwrap())(&ctx, &crumb) else {
            unexplained.push(format!("worker {} died and its breadcrumb cannot be decoded", i));
            continue;
        };
        let probe = dir.join(format!("{}.abort-replay.txt", i));
        if std::fs::write(&probe, format!("---\n{}\n", replay_text)).is_err() {
            machinery_failure("cannot write the abort replay probe");
        }
        let status = std::process::Command::new(&exe).arg("--prop").arg(&ctx.prop).arg("--replay").arg(&probe).stdout(std::process::Stdio::null()).stderr(std::process::Stdio::null()).status();
        let reproduced = matches!(status.as_ref().map(|s| s.code()), Ok(Some(ABORT_EXIT_CODE)) | Ok(Some(1)) | Ok(Some(134)) | Ok(None));
        let mut replay_text = replay_text;
        let mut how = "";
        if !reproduced {
            // re-run the worker's whole share in its own work directory
            std::env::set_var("VERIF_WORK_SUFFIX", format!("rerun{}", i));
            let rdir = work_dir(&ctx);
            std::env::remove_var("VERIF_WORK_SUFFIX");
            let _ = std::fs::remove_dir_all(&rdir);
            let _ = std::fs::create_dir_all(&rdir);
            let rerun = std::process::Command::new(&exe)
                .args(std::env::args().skip(1))
                .arg("--worker")
                .arg(format!("{}/{}", i, n))
                .env("VERIF_WORK_SUFFIX", format!("rerun{}", i))
                .stdout(std::process::Stdio::null())
                .stderr(std::process::Stdio::null())
                .status();
            let crumb2 = std::fs::read(rdir.join(format!("{}.abort", i))).unwrap_or_default();
            let _ = std::fs::remove_dir_all(&rdir);
            let died_again = matches!(rerun.as_ref().map(|s| s.code()), Ok(Some(ABORT_EXIT_CODE)));
            if !(died_again && crumb2 == crumb) {
                unexplained.push(format!("worker {} died but neither the execution in progress alone nor a re-run of the worker's share dies again: {}", i, replay_text.replace('\n', " / ")));
                continue;
            }
            how = " (only in the heap state left by the worker's earlier executions: the same death at the same execution when the worker's whole share is re-run; memory corruption)";
            replay_text = format!("rerun-worker: {}/{}\ntier: {}\n{}", i, n, ctx.tier.name(), replay_text);
        }
        total.evaluations += 1;
        total.not_exhaustive = true;
        total.note(format!("worker {} died inside the code under test; the rest of its share was not explored", i));
        total.violation(Violation {
            key,
            summary: format!("the process DIES (abort from a non-unwinding panic / std's undefined-behaviour precondition check, or SIGSEGV / SIGBUS from a wild access){} during: {}", how, replay_text.replace('\n', " / ")),
            replay_text,
        });
    }
    unexplained.extend(failed);
    if !unexplained.is_empty() {
        if total.violations.is_empty() {
            machinery_failure(&unexplained.join("; "));
        }
        // violations found by the other workers are a verdict; the unexplained deaths are reported with them
        total.not_exhaustive = true;
        for u in &unexplained {
            eprintln!("MACHINERY-NOTE: {}", u);
            total.note(format!("not explored: {}", u));
        }
    }
    let _ = std::fs::remove_dir_all(&dir);
    finish(&ctx, &engine, total)
}

/// Writes the partial evidence, prints VIOLATION / KNOWN-FINDING lines, exits.
pub fn finish(ctx: &Ctx, engine: &Engine, total: Report) -> ! {
    let known = load_known_findings();
    let replay_dir = PathBuf::from(VERIF_ROOT).join("replays");
    let _ = std::fs::create_dir_all(&replay_dir);

    let mut new_violations = 0u64;
    let mut known_hits = 0u64;
    let mut lines = Vec::new();
    for (n, v) in total.violations.iter().enumerate() {
        if let Some(k) = known
            .iter()
            .find(|k| k.property == ctx.prop && k.key == v.key)
        {
            known_hits += 1;
            lines.push(format!(
                "KNOWN-FINDING: property={} {} [key={}]",
                ctx.prop, k.what, k.key
            ));
            continue;
        }
        new_violations += 1;
        let path = replay_dir.join(format!(
            "{}-{}-{}-{}.txt",
            ctx.prop,
            ctx.engine,
            ctx.tier.name(),
            n
        ));
        let text = format!(
            "# replay artefact\nengine: {}\nproperty: {}\ntier: {}\nkey: {}\nsummary: {}\nreplay-with: ./check {} --replay {}\n---\n{}\n",
            ctx.engine,
            ctx.prop,
            ctx.tier.name(),
            v.key,
            v.summary,
            ctx.prop,
            path.display(),
            v.replay_text
        );
        if let Err(e) = std::fs::write(&path, text) {
            machinery_failure(&format!("cannot write replay {:?}: {}", path, e));
        }
        lines.push(format!("  what fails: {}", v.summary));
        lines.push(format!(
            "VIOLATION property={} replay={}",
            ctx.prop,
            path.display()
        ));
    }
    new_violations += total.violations_dropped;

    let exhaustive = !total.not_exhaustive;
    let mut coverage: Vec<(String, J)> = vec![
        ("evaluations".into(), J::i(total.evaluations)),
        ("distinct_nontrivial".into(), J::i(total.nontrivial)),
        ("rule".into(), J::s((engine.rule)(ctx))),
        (
            "samples".into(),
            J::Arr(total.samples.iter().map(|s| J::s(s.clone())).collect()),
        ),
        ("states".into(), J::i(total.states.len() as u64)),
        ("transitions".into(), J::i(total.transitions)),
        (
            "traces_validated_against_impl".into(),
            J::i(total.evaluations),
        ),
        ("distinct_outcomes".into(), J::i(total.outcomes.len() as u64)),
        ("max_depth".into(), J::i(total.max_depth)),
        ("exhaustive".into(), J::Bool(exhaustive)),
        ("state_count_capped".into(), J::Bool(total.state_cap_hit)),
        ("workers".into(), J::i(ctx.nworkers as u64)),
        ("notes".into(), J::arr_str(&total.notes)),
    ];
    for (k, v) in &total.counters {
        coverage.push((k.clone(), J::i(*v)));
    }
    let evidence = J::Obj(vec![
        ("property_id".into(), J::s(ctx.prop.clone())),
        ("engine".into(), J::s(ctx.engine.clone())),
        ("tier".into(), J::s(ctx.tier.name())),
        ("seed".into(), J::i(ctx.seed)),
        ("level".into(), J::s((engine.level)(&ctx.prop))),
        ("coverage".into(), J::Obj(coverage)),
        (
            "assumptions".into(),
            J::arr_str(&(engine.assumptions)(ctx)),
        ),
        ("wall_s".into(), J::Float(ctx.elapsed())),
        ("violations".into(), J::i(new_violations)),
        ("known_findings_reproduced".into(), J::i(known_hits)),
    ]);
    if let Some(out) = &ctx.out {
        if let Some(parent) = out.parent() {
            let _ = std::fs::create_dir_all(parent);
        }
        if let Err(e) = std::fs::write(out, evidence.render() + "\n") {
            machinery_failure(&format!("cannot write evidence {:?}: {}", out, e));
        }
    }
    let stdout = std::io::stdout();
    let mut stdout = stdout.lock();
    let _ = writeln!(
        stdout,
        "[{} {} {}] executions={} transitions={} states={} outcomes={} depth={} exhaustive={} wall={:.1}s",
        ctx.engine,
        ctx.prop,
        ctx.tier.name(),
        total.evaluations,
        total.transitions,
        total.states.len(),
        total.outcomes.len(),
        total.max_depth,
        exhaustive,
        ctx.elapsed()
    );
    for n in &total.notes {
        let _ = writeln!(stdout, "  note: {}", n);
    }
    for l in lines {
        let _ = writeln!(stdout, "{}", l);
    }
    let _ = stdout.flush();
    if total.evaluations == 0 {
        machinery_failure("nothing was explored");
    }
    std::process::exit(if new_violations > 0 { 1 } else { 0 });
}

/// Renders bytes compactly: "01 61 FE FD" or with run-length for long inputs.
pub fn hex(bytes: &[u8]) -> String {
    if bytes.len() <= 48 {
        return bytes
            .iter()
            .map(|b| format!("{:02X}", b))
            .collect::<Vec<_>>()
            .join(" ");
    }
    // run-length encode
    let mut out = Vec::new();
    let mut i = 0;
    while i < bytes.len() {
        let mut j = i;
        while j < bytes.len() && bytes[j] == bytes[i] {
            j += 1;
        }
        if j - i > 3 {
            out.push(format!("{:02X}x{}", bytes[i], j - i));
        } else {
            for _ in i..j {
                out.push(format!("{:02X}", bytes[i]));
            }
        }
        i = j;
        if out.len() > 64 {
            out.push(format!("...(+{} bytes)", bytes.len() - i));
            break;
        }
    }
    out.join(" ")
}

/// Parses the output of `hex` for short inputs ("01 61 FE") and run-length tokens ("00x300").
pub fn unhex(text: &str) -> Option<Vec<u8>> {
    let mut out = Vec::new();
    for tok in text.split_whitespace() {
        if let Some((b, n)) = tok.split_once('x') {
            let b = u8::from_str_radix(b, 16).ok()?;
            let n: usize = n.parse().ok()?;
            out.extend(std::iter::repeat(b).take(n));
        } else {
            out.push(u8::from_str_radix(tok, 16).ok()?);
        }
    }
    Some(out)
}

/// Finds "name: value" in a replay artefact body.
pub fn field<'a>(text: &'a str, name: &str) -> Option<&'a str> {
    let prefix = format!("{}:", name);
    text.lines()
        .find_map(|l| l.strip_prefix(&prefix).map(|v| v.trim()))
}

/// Everything the `Iterator` trait lets a client do with an iterator the code under test hands out,
/// compared with the item list `want` obtained independently: an implementation may override any
/// provided method (`size_hint`, `count`, `last`, `nth`, `fold`, ...), so each of them is called ON
/// THE ITERATOR ITSELF (never through an adapter such as `map`, whose own `last` / `count` go
/// through `fold`), on a fresh iterator and on iterators already advanced by 1..len items; items
/// are converted by `conv` after they were produced.
pub fn iter_battery<I, T>(make: impl Fn() -> I, conv: impl Fn(I::Item) -> T, want: &[T], what: &str) -> Result<(), String>
where
    I: Iterator,
    T: PartialEq + std::fmt::Debug,
{
    let n = want.len();
    let mut all: Vec<T> = Vec::new();
    let mut it = make();
    while let Some(x) = it.next() {
        all.push(conv(x));
        if all.len() > n + 4 {
            break;
        }
    }
    if all != want {
        return Err(format!("{}: next() until None yields {:?} expected {:?}", what, all, want));
    }
    let collected: Vec<T> = make().collect::<Vec<_>>().into_iter().map(&conv).collect();
    if collected != want {
        return Err(format!("{}: collect() = {:?} expected {:?}", what, collected, want));
    }
    let mut ks: Vec<usize> = vec![0, 1, 2, n.saturating_sub(1), n];
    ks.retain(|k| *k <= n);
    ks.sort();
    ks.dedup();
    for k in ks {
        // k = number of items taken with next() before the provided method is called
        let advanced = || -> Result<I, String> {
            let mut it = make();
            for j in 0..k {
                let got = it.next().map(&conv);
                if got.as_ref() != want.get(j) {
                    return Err(format!("{}: next() #{} = {:?} expected {:?}", what, j + 1, got, want.get(j)));
                }
            }
            Ok(it)
        };
        let (lo, hi) = advanced()?.size_hint();
        if lo > n - k || hi.is_some_and(|h| h < n - k) {
            return Err(format!("{}: size_hint() after {} items = ({}, {:?}) with {} items left", what, k, lo, hi, n - k));
        }
        let c = advanced()?.count();
        if c != n - k {
            return Err(format!("{}: count() after {} items = {} expected {}", what, k, c, n - k));
        }
        let l = advanced()?.last().map(&conv);
        let wl = if k < n { want.last() } else { None };
        if l.as_ref() != wl {
            return Err(format!("{}: last() after {} items = {:?} expected {:?}", what, k, l, wl));
        }
        let mut js: Vec<usize> = vec![0usize, 1, n.saturating_sub(k + 1), n - k, usize::MAX];
        js.sort();
        js.dedup();
        for j in js {
            let mut it = advanced()?;
            let got = it.nth(j).map(&conv);
            let w = k.checked_add(j).and_then(|i| want.get(i));
            if got.as_ref() != w {
                return Err(format!("{}: nth({}) after {} items = {:?} expected {:?}", what, j, k, got, w));
            }
            // and the iterator carries on from there
            let after = it.next().map(&conv);
            let wa = k.checked_add(j).and_then(|i| i.checked_add(1)).and_then(|i| want.get(i));
            if got.is_some() && after.as_ref() != wa {
                return Err(format!("{}: next() after nth({}) after {} items = {:?} expected {:?}", what, j, k, after, wa));
            }
            // last() / count() after a jump
            if j <= 1 {
                let mut it = advanced()?;
                let _ = it.nth(j);
                let l = it.last().map(&conv);
                let wl = if k.saturating_add(j).saturating_add(1) < n { want.last() } else { None };
                if l.as_ref() != wl {
                    return Err(format!("{}: last() after nth({}) after {} items = {:?} expected {:?}", what, j, k, l, wl));
                }
                let mut it = advanced()?;
                let _ = it.nth(j);
                let c = it.count();
                let wc = n.saturating_sub(k.saturating_add(j).saturating_add(1));
                if c != wc {
                    return Err(format!("{}: count() after nth({}) after {} items = {} expected {}", what, j, k, c, wc));
                }
            }
        }
        if k > 1 {
            continue;
        }
        let folded: Vec<T> = advanced()?.fold(Vec::new(), |mut v, x| {
            v.push(conv(x));
            v
        });
        if folded != want[k..] {
            return Err(format!("{}: fold() after {} items = {:?} expected {:?}", what, k, folded, &want[k..]));
        }
        let skipped: Vec<T> = advanced()?.skip(1).map(&conv).collect();
        if skipped != want[(k + 1).min(n)..] {
            return Err(format!("{}: skip(1) after {} items = {:?} expected {:?}", what, k, skipped, &want[(k + 1).min(n)..]));
        }
        let skip_last = advanced()?.skip(1).last().map(&conv);
        let wsl = if k + 1 < n { want.last() } else { None };
        if skip_last.as_ref() != wsl {
            return Err(format!("{}: skip(1).last() after {} items = {:?} expected {:?}", what, k, skip_last, wsl));
        }
        let stepped: Vec<T> = advanced()?.step_by(2).map(&conv).collect();
        let ws: Vec<&T> = want[k..].iter().step_by(2).collect();
        if stepped.iter().collect::<Vec<_>>() != ws {
            return Err(format!("{}: step_by(2) after {} items = {:?} expected {:?}", what, k, stepped, ws));
        }
        // exhausted iterators stay exhausted for the calls a client is likely to make next
        let mut it = advanced()?;
        for _ in 0..n - k {
            it.next();
        }
        if it.next().is_some() {
            return Err(format!("{}: next() yields an item past the end (after {} + {} items)", what, k, n - k));
        }
    }
    Ok(())
}

/// Caps the address space of this process (RLIMIT_AS).  An execution that makes the code under test
/// allocate without bound (a `read_to_end` that never sees end of file, a queue that only grows) then
/// dies of an allocation failure - which the breadcrumb handler turns into a verdict - instead of
/// taking the machine down with it.
pub fn limit_address_space(bytes: u64) {
    let lim = libc::rlimit { rlim_cur: bytes as libc::rlim_t, rlim_max: bytes as libc::rlim_t };
    // SAFETY: plain libc call with a valid pointer
    unsafe {
        libc::setrlimit(libc::RLIMIT_AS, &lim);
    }
}


static HEARTBEAT: std::sync::atomic::AtomicU64 = std::sync::atomic::AtomicU64::new(0);

/// Starts a watchdog thread: if the engine leaves breadcrumbs (so executions are delimited) and no new
/// execution starts for `secs` seconds, the execution in progress does not terminate (an unbounded
/// loop in the code under test).  The process then dies the way an abort does - the breadcrumb is
/// written out and the exit status is the abort status - so that the parent replays that execution in
/// a fresh child, and dying again there is the verdict.
pub fn start_watchdog(secs: u64) {
    std::thread::spawn(move || {
        let mut last = HEARTBEAT.load(std::sync::atomic::Ordering::Relaxed);
        let mut since = std::time::Instant::now();
        loop {
            std::thread::sleep(std::time::Duration::from_secs(1));
            let now = HEARTBEAT.load(std::sync::atomic::Ordering::Relaxed);
            if now != last {
                last = now;
                since = std::time::Instant::now();
                continue;
            }
            if now > 0 && CRUMB_LEN.load(std::sync::atomic::Ordering::Relaxed) > 0 && since.elapsed().as_secs() >= secs {
                on_abort(0);
                std::process::exit(ABORT_EXIT_CODE);
            }
        }
    });
}
