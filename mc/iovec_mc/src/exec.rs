//! One execution of the real OwningIovec next to its reference model.
//!
//! The reference model of one pipe is a `Vec<Cell>` (every byte appended since
//! the last clear; a cell is a byte or a numbered hole) plus a consumed count.
//! Implementation-only events (arena growth, slice merging, slides) are absent.
use mc_core::*;
use owning_iovec::AnchoredSlice;
use owning_iovec::Backref;
use owning_iovec::ByteArena;
use owning_iovec::OwningIovec;
use std::io::IoSlice;
use std::io::Read;
use std::num::NonZeroUsize;

pub const PAT_LEN: usize = 4096;
/// Payload source: position dependent, mostly values that are never 0xFC (free poison), 0xEE
/// (placeholder filler) or 0xB0..0xBF (backfill values); three regions hold runs of 0xFC (the very value the arena poisons freed chunks with: a legal payload byte like any other), of 0x00 and of 0xFF
/// bytes, so that some payloads are all zeros, all ones, or end / start with such a run (byte
/// values are opaque to a byte pipe: nothing may depend on them).
pub static PAT: [u8; PAT_LEN] = {
    let mut a = [0u8; PAT_LEN];
    let mut i = 0;
    while i < PAT_LEN {
        a[i] = if i >= 2700 && i < 3000 { 0xFC } else if i >= 3000 && i < 3300 { 0x00 } else if i >= 3300 && i < 3700 { 0xFF } else { 1 + ((i * 7 + i / 173) % 0xAF) as u8 };
        i += 1;
    }
    a
};
pub const HOLE_FILLER: u8 = 0xEE;
pub const POISON: u8 = 0xFC;

#[derive(Clone, Copy, Debug, PartialEq, Eq, Hash)]
pub enum Cell {
    Byte(u8),
    Hole(u32),
}

#[derive(Clone, Copy, Debug, PartialEq, Eq, Hash)]
pub enum K {
    Push(u16),
    PushCopy(u16),
    PushBorrowed(u16),
    Extend,
    /// `extend` with an iterator that yields a 3-byte and a 70-byte slice and then PANICS (caught by the
    /// caller): whichever of the yielded slices made it into the pipe, the pipe must stay consistent
    ExtendPanics,
    PushAnchored(u16),
    Register(u8),
    /// index into the pending list: 0, 1, 2, or 255 = last
    Backfill(u8),
    /// backfill with exactly the bytes the placeholder was registered with (a legal value like any other)
    BackfillSame(u8),
    Clear,
    Take,
    FlushCache,
    SwapArena,
    Burn(u16),
    /// arena().ensure_capacity(n): may open a fresh, still unused chunk
    Reserve(u16),
    /// a read_n that gets nothing (EOF at once): reserves, then hands everything back
    ReadNothing(u16),
    /// 255 = usize::MAX
    Consume(u8),
    /// 65535 = usize::MAX
    Advance(u16),
    PopFront,
    Read(u16),
    /// the provided methods of the `Read` trait, which an implementation may override
    ReadToEnd,
    ReadExact(u16),
    ReadVectored,
    ReadBytes(u8),
    /// arena bytes obtained by read_n enter through `extend` (not push / push_borrowed), then their anchor
    ExtendAnchored(u16),
    /// arena bytes obtained by read_n: the ANCHOR is pushed first, then the borrowed slice
    AnchorFirst(u16),
    /// backfill_or_panic with a value of the wrong size: documented to panic; whoever catches the
    /// panic must find the iovec unchanged (the placeholder still pending)
    BackfillWrongSize(u8),
    CloneA,
    /// `B.clone_from(&A)`: B exists (possibly with placeholders of its own pending) and is overwritten
    CloneFromA,
    /// clone A while it has placeholders pending: the clone cannot backfill them (the tokens are not
    /// clonable), so they stay hidden in it for good
    ClonePending,
    DropSide,
    HoldRead(u16),
    HeldPush,
    HeldSplit,
    HeldSkip,
    HeldDropSuffix,
    HeldClone,
    HeldDrop,
}

#[derive(Clone, Copy, Debug, PartialEq, Eq, Hash)]
pub struct Op {
    pub k: K,
    pub side: u8,
}

pub const fn a(k: K) -> Op {
    Op { k, side: 0 }
}
pub const fn b(k: K) -> Op {
    Op { k, side: 1 }
}

impl Op {
    pub fn name(&self) -> String {
        let side = if self.side == 0 { "A" } else { "B" };
        let body = match self.k {
            K::Push(n) => format!("push({})", n),
            K::PushCopy(n) => format!("push_copy({})", n),
            K::PushBorrowed(n) => format!("push_borrowed({})", n),
            K::Extend => "extend".to_string(),
            K::ExtendPanics => "extend_panicking_iterator".to_string(),
            K::PushAnchored(n) => format!("push_anchored({})", n),
            K::ExtendAnchored(n) => format!("extend_anchored({})", n),
            K::AnchorFirst(n) => format!("anchor_then_push_borrowed({})", n),
            K::BackfillWrongSize(i) => format!("backfill_wrong_size({})", i),
            K::Register(n) => format!("register_patch({})", n),
            K::Backfill(i) => format!("backfill({})", i),
            K::BackfillSame(i) => format!("backfill_same({})", i),
            K::Clear => "clear".to_string(),
            K::Take => "take".to_string(),
            K::FlushCache => "flush_cache".to_string(),
            K::SwapArena => "swap_arena".to_string(),
            K::Burn(r) => format!("burn({})", r),
            K::Reserve(n) => format!("reserve({})", n),
            K::ReadNothing(n) => format!("read_nothing({})", n),
            K::Consume(n) => format!("consume({})", n),
            K::Advance(n) => format!("advance_slices({})", n),
            K::PopFront => "pop_front".to_string(),
            K::Read(n) => format!("read({})", n),
            K::ReadToEnd => "read_to_end".to_string(),
            K::ReadExact(n) => format!("read_exact({})", n),
            K::ReadVectored => "read_vectored".to_string(),
            K::ReadBytes(n) => format!("bytes_take({})", n),
            K::CloneA => "clone".to_string(),
            K::CloneFromA => "clone_from_A_into_B".to_string(),
            K::ClonePending => "clone_while_pending".to_string(),
            K::DropSide => "drop".to_string(),
            K::HoldRead(n) => format!("hold_read({})", n),
            K::HeldPush => "held_push".to_string(),
            K::HeldSplit => "held_split".to_string(),
            K::HeldSkip => "held_skip".to_string(),
            K::HeldDropSuffix => "held_drop_suffix".to_string(),
            K::HeldClone => "held_clone".to_string(),
            K::HeldDrop => "held_drop".to_string(),
        };
        format!("{}:{}", side, body)
    }

    pub fn parse(text: &str) -> Option<Op> {
        let (side, body) = text.trim().split_once(':')?;
        let side = match side {
            "A" => 0,
            "B" => 1,
            _ => return None,
        };
        let (name, arg) = match body.split_once('(') {
            Some((n, rest)) => (n, rest.strip_suffix(')')?.parse::<u32>().ok()),
            None => (body, None),
        };
        let k = match (name, arg) {
            ("push", Some(n)) => K::Push(n as u16),
            ("push_copy", Some(n)) => K::PushCopy(n as u16),
            ("push_borrowed", Some(n)) => K::PushBorrowed(n as u16),
            ("extend", None) => K::Extend,
            ("extend_panicking_iterator", None) => K::ExtendPanics,
            ("push_anchored", Some(n)) => K::PushAnchored(n as u16),
            ("extend_anchored", Some(n)) => K::ExtendAnchored(n as u16),
            ("anchor_then_push_borrowed", Some(n)) => K::AnchorFirst(n as u16),
            ("backfill_wrong_size", Some(n)) => K::BackfillWrongSize(n as u8),
            ("register_patch", Some(n)) => K::Register(n as u8),
            ("backfill", Some(n)) => K::Backfill(n as u8),
            ("backfill_same", Some(n)) => K::BackfillSame(n as u8),
            ("clear", None) => K::Clear,
            ("take", None) => K::Take,
            ("flush_cache", None) => K::FlushCache,
            ("swap_arena", None) => K::SwapArena,
            ("burn", Some(n)) => K::Burn(n as u16),
            ("reserve", Some(n)) => K::Reserve(n as u16),
            ("read_nothing", Some(n)) => K::ReadNothing(n as u16),
            ("consume", Some(n)) => K::Consume(n as u8),
            ("advance_slices", Some(n)) => K::Advance(n as u16),
            ("pop_front", None) => K::PopFront,
            ("read", Some(n)) => K::Read(n as u16),
            ("read_to_end", None) => K::ReadToEnd,
            ("read_exact", Some(n)) => K::ReadExact(n as u16),
            ("read_vectored", None) => K::ReadVectored,
            ("bytes_take", Some(n)) => K::ReadBytes(n as u8),
            ("clone", None) => K::CloneA,
            ("clone_from_A_into_B", None) => K::CloneFromA,
            ("clone_while_pending", None) => K::ClonePending,
            ("drop", None) => K::DropSide,
            ("hold_read", Some(n)) => K::HoldRead(n as u16),
            ("held_push", None) => K::HeldPush,
            ("held_split", None) => K::HeldSplit,
            ("held_skip", None) => K::HeldSkip,
            ("held_drop_suffix", None) => K::HeldDropSuffix,
            ("held_clone", None) => K::HeldClone,
            ("held_drop", None) => K::HeldDrop,
            _ => return None,
        };
        Some(Op { k, side })
    }
}

pub fn render(path: &[Op]) -> String {
    path.iter().map(|o| o.name()).collect::<Vec<_>>().join("; ")
}

pub fn parse_path(text: &str) -> Option<Vec<Op>> {
    let mut out = Vec::new();
    for tok in text.split(';') {
        if tok.trim().is_empty() {
            continue;
        }
        out.push(Op::parse(tok)?);
    }
    Some(out)
}

#[derive(Clone, Copy, Debug, PartialEq, Eq)]
pub enum Start {
    Fresh,
    /// OwningIovec::new_from_slices([3 bytes, empty, 70 bytes], None)
    FromSlices,
    /// FromIterator over [&IoSlice] with an empty slice in the list
    FromIter,
}

impl Start {
    pub fn name(self) -> &'static str {
        match self {
            Start::Fresh => "fresh",
            Start::FromSlices => "from_slices",
            Start::FromIter => "from_iter",
        }
    }
    pub fn parse(s: &str) -> Option<Start> {
        [Start::Fresh, Start::FromSlices, Start::FromIter].into_iter().find(|x| x.name() == s)
    }
}

struct Pending {
    /// None for the placeholders a clone inherited: it has no token to backfill them with
    token: Option<Backref>,
    pos: usize,
    len: usize,
    id: u32,
}

pub struct Side {
    iov: OwningIovec<'static>,
    model: Vec<Cell>,
    consumed: usize,
    pending: Vec<Pending>,
}

struct Held {
    slice: AnchoredSlice,
    expect: Vec<u8>,
    alloc: u32,
}

pub struct Exec {
    pub sides: [Option<Side>; 2],
    spare: Option<ByteArena>,
    held: Vec<Held>,
    /// ranges of arena memory handed out by read_n (start, len, alloc id)
    anchored_ranges: Vec<(usize, usize, u32)>,
    counter: usize,
    next_hole: u32,
    next_alloc: u32,
    live0: (usize, usize),
    pub ever_consumed: bool,
    pub ever_hole: bool,
    pub ever_two_sides: bool,
}

/// A reader delivering exactly the given bytes.
struct Full<'a>(&'a [u8]);
impl Read for Full<'_> {
    fn read(&mut self, dst: &mut [u8]) -> std::io::Result<usize> {
        let n = dst.len().min(self.0.len());
        dst[..n].copy_from_slice(&self.0[..n]);
        self.0 = &self.0[n..];
        Ok(n)
    }
}

fn in_static(ptr: usize, len: usize) -> bool {
    let r = PAT.as_ptr_range();
    (r.start as usize) <= ptr && ptr + len <= (r.end as usize)
}

impl Side {
    fn first_hole(&self) -> Option<usize> {
        self.pending.iter().map(|p| p.pos).min()
    }

    fn stable_lens(&self) -> Vec<usize> {
        self.iov.stable_prefix().iter().map(|s| s.len()).collect()
    }

    fn append_bytes(&mut self, bytes: &[u8]) {
        self.model.extend(bytes.iter().map(|b| Cell::Byte(*b)));
    }

    /// Compares every read-side view with the model.
    fn oracle(&mut self, who: &str) -> Result<(), String> {
        let total_model = self.model.len() - self.consumed;
        let slices: Vec<(usize, usize)> = self.iov.stable_prefix().iter().map(|s| (s.as_ptr() as usize, s.len())).collect();
        if slices.iter().any(|s| s.1 == 0) {
            return Err(format!("[content] {}: an exposed slice is empty", who));
        }
        let mut flat: Vec<u8> = Vec::new();
        for (idx, s) in self.iov.stable_prefix().iter().enumerate() {
            let ptr = s.as_ptr() as usize;
            // C05: liveness first (never read through a dangling slice without saying so)
            if !(in_static(ptr, s.len()) || owning_iovec::verif::is_live(ptr, s.len())) {
                return Err(format!(
                    "[live] {}: exposed slice #{} ({} bytes) is neither inside a live arena chunk nor inside a caller buffer (use after free)",
                    who, idx, s.len()
                ));
            }
            flat.extend_from_slice(s);
        }
        let v = flat.len();
        // total size, emptiness
        if self.iov.total_size() != total_model {
            return Err(format!("[content] {}: total_size() = {} expected appended - consumed = {}", who, self.iov.total_size(), total_model));
        }
        let is_empty = self.iov.is_empty();
        if (self.iov.len() == 0) != is_empty || is_empty != (total_model == 0) {
            return Err(format!("[content] {}: len() = {}, is_empty() = {}, but {} bytes are buffered", who, self.iov.len(), is_empty, total_model));
        }
        // never beyond the earliest hole
        if v > total_model {
            return Err(format!("[content] {}: {} bytes visible but only {} buffered", who, v, total_model));
        }
        if let Some(h) = self.first_hole() {
            if self.consumed + v > h {
                return Err(format!(
                    "{}: {} bytes are visible but the earliest pending placeholder starts {} bytes in (placeholder or later bytes exposed)",
                    who,
                    v,
                    h - self.consumed
                ));
            }
        } else if v != total_model {
            return Err(format!("[content] {}: no placeholder pending but only {} of {} buffered bytes are visible", who, v, total_model));
        }
        // content
        for (i, byte) in flat.iter().enumerate() {
            match self.model[self.consumed + i] {
                Cell::Byte(want) if want == *byte => {}
                Cell::Byte(want) => {
                    return Err(format!(
                        "{}: visible byte {} is {:#04x} expected {:#04x}{}",
                        who,
                        i,
                        byte,
                        want,
                        if *byte == POISON { " (0xFC = freed-arena poison)" } else { "" }
                    ))
                }
                Cell::Hole(id) => return Err(format!("[content] {}: visible byte {} belongs to unfilled placeholder #{}", who, i, id)),
            }
        }
        // the views agree with each other
        let pending = !self.pending.is_empty();
        if self.iov.has_pending_backrefs() != pending {
            return Err(format!("[content] {}: has_pending_backrefs() = {} expected {}", who, !pending, pending));
        }
        let front = self.iov.front().map(|s| (s.as_ptr() as usize, s.len()));
        if front != slices.first().copied() {
            return Err(format!("[content] {}: front() disagrees with stable_prefix()", who));
        }
        let iovs = self.iov.iovs();
        if iovs.is_err() != pending {
            return Err(format!("[content] {}: iovs().is_ok() = {} with placeholder pending = {}", who, iovs.is_ok(), pending));
        }
        let payload = match iovs {
            Ok(x) | Err(x) => x,
        };
        if payload.iter().map(|s| (s.as_ptr() as usize, s.len())).collect::<Vec<_>>() != slices {
            return Err(format!("[content] {}: iovs() payload disagrees with stable_prefix()", who));
        }
        let fl = self.iov.flatten();
        if fl.is_err() != pending {
            return Err(format!("[content] {}: flatten().is_ok() = {} with placeholder pending = {}", who, fl.is_ok(), pending));
        }
        let fl = match fl {
            Ok(x) | Err(x) => x,
        };
        if fl != flat {
            return Err(format!("[content] {}: flatten() disagrees with stable_prefix()", who));
        }
        let fi = self.iov.flatten_into(vec![0x5A, 0x5B]);
        let fi = match fi {
            Ok(x) => {
                if pending {
                    return Err(format!("[content] {}: flatten_into() is Ok with a placeholder pending", who));
                }
                x
            }
            Err(x) => {
                if !pending {
                    return Err(format!("[content] {}: flatten_into() is Err with no placeholder pending", who));
                }
                x
            }
        };
        if fi[..2] != [0x5A, 0x5B] || fi[2..] != flat[..] {
            return Err(format!("[content] {}: flatten_into() disagrees with stable_prefix()", who));
        }
        let iterated: Vec<(usize, usize)> = (&self.iov).into_iter().map(|s| (s.as_ptr() as usize, s.len())).collect();
        if iterated != slices {
            return Err(format!("[content] {}: IntoIterator disagrees with stable_prefix()", who));
        }
        match self.iov.stable_consumer() {
            Ok(stable) => {
                if pending {
                    return Err(format!("[content] {}: stable_consumer() is Ok with a placeholder pending", who));
                }
                if stable.iovs().iter().map(|s| (s.as_ptr() as usize, s.len())).collect::<Vec<_>>() != slices || stable.flatten() != flat {
                    return Err(format!("[content] {}: StableIovec views disagree with stable_prefix()", who));
                }
            }
            Err(_) => {
                if !pending {
                    return Err(format!("[content] {}: stable_consumer() is Err with no placeholder pending", who));
                }
            }
        }
        Ok(())
    }

    /// Owned (arena) exposed slices: (start, len).
    fn owned_exposed(&self) -> Vec<(usize, usize)> {
        self.iov
            .stable_prefix()
            .iter()
            .map(|s| (s.as_ptr() as usize, s.len()))
            .filter(|(p, n)| !in_static(*p, *n))
            .collect()
    }
}

impl Exec {
    pub fn new(start: Start) -> Exec {
        let live0 = (ByteArena::num_live_chunks(), ByteArena::num_live_bytes());
        let mut side = Side {
            iov: OwningIovec::new(),
            model: Vec::new(),
            consumed: 0,
            pending: Vec::new(),
        };
        match start {
            Start::Fresh => {}
            Start::FromSlices => {
                let slices = vec![IoSlice::new(&PAT[100..103]), IoSlice::new(&PAT[0..0]), IoSlice::new(&PAT[200..270])];
                side.iov = OwningIovec::new_from_slices(slices, None);
                side.append_bytes(&PAT[100..103]);
                side.append_bytes(&PAT[200..270]);
            }
            Start::FromIter => {
                static SLICES: std::sync::OnceLock<Vec<IoSlice<'static>>> = std::sync::OnceLock::new();
                let slices = SLICES.get_or_init(|| vec![IoSlice::new(&PAT[300..303]), IoSlice::new(&PAT[0..0]), IoSlice::new(&PAT[400..470])]);
                side.iov = slices.iter().collect();
                side.append_bytes(&PAT[300..303]);
                side.append_bytes(&PAT[400..470]);
            }
        }
        Exec {
            sides: [Some(side), None],
            spare: None,
            held: Vec::new(),
            anchored_ranges: Vec::new(),
            counter: 0,
            next_hole: 0,
            next_alloc: 0,
            live0,
            ever_consumed: false,
            ever_hole: false,
            ever_two_sides: false,
        }
    }

    fn payload(&mut self, n: usize) -> &'static [u8] {
        self.counter += 1;
        let off = (self.counter * 331 + 2500) % (PAT_LEN - 600); // the first payloads of a history start in the 0xFC, 0x00 and 0xFF runs
        &PAT[off..off + n]
    }

    pub fn enabled(&self, op: Op) -> bool {
        let Some(side) = self.sides[op.side as usize].as_ref() else {
            // the only op on an absent side B is creating it
            return false;
        };
        match op.k {
            K::Backfill(i) => {
                let n = side.pending.len();
                if side.pending.iter().any(|p| p.token.is_none()) {
                    return false; // a clone cannot backfill what it inherited
                }
                match i {
                    255 => n >= 1,
                    i => n > i as usize && !(i as usize == n - 1 && n >= 1 && false),
                }
            }
            K::BackfillSame(i) => side.pending.len() > i as usize && side.pending.iter().all(|p| p.token.is_some()),
            K::Register(_) => side.pending.len() < 12,
            K::BackfillWrongSize(i) => side.pending.len() > i as usize && side.pending.iter().all(|p| p.token.is_some()),
            K::PopFront => !side.iov.stable_prefix().is_empty(),
            // read_exact leaves the amount consumed unspecified when it fails: only asked for what is there
            K::ReadExact(n) => side.iov.stable_prefix().iter().map(|s| s.len()).sum::<usize>() >= n as usize,
            K::CloneA => op.side == 0 && self.sides[1].is_none() && side.pending.is_empty(),
            K::CloneFromA => op.side == 0 && self.sides[1].is_some() && side.pending.is_empty() && self.sides[1].as_ref().map(|b| b.pending.iter().all(|p| p.token.is_some())).unwrap_or(false),
            K::ClonePending => op.side == 0 && self.sides[1].is_none() && !side.pending.is_empty(),
            K::Take => op.side == 0 && self.sides[1].is_none(),
            K::DropSide => self.sides[0].is_some() && self.sides[1].is_some(),
            K::HoldRead(_) => self.held.len() < 3,
            K::HeldPush | K::HeldSplit | K::HeldSkip | K::HeldDropSuffix | K::HeldDrop => !self.held.is_empty(),
            K::HeldClone => !self.held.is_empty() && self.held.len() < 3,
            _ => true,
        }
    }

    /// Applies one op to the real object(s) and the model(s); checks return values.
    pub fn apply(&mut self, op: Op) -> Result<(), String> {
        let si = op.side as usize;
        match op.k {
            K::Push(n) => {
                let p = self.payload(n as usize);
                let s = self.sides[si].as_mut().unwrap();
                s.iov.push(p);
                s.append_bytes(p);
            }
            K::PushCopy(n) => {
                let p = self.payload(n as usize);
                let s = self.sides[si].as_mut().unwrap();
                // copy from a transient buffer: the source must not need to outlive the call
                let tmp = p.to_vec();
                s.iov.push_copy(&tmp);
                drop(tmp);
                s.append_bytes(p);
            }
            K::PushBorrowed(n) => {
                let p = self.payload(n as usize);
                let s = self.sides[si].as_mut().unwrap();
                s.iov.push_borrowed(p);
                s.append_bytes(p);
            }
            K::AnchorFirst(n) => {
                let p = self.payload(n as usize);
                let alloc = self.next_alloc;
                self.next_alloc += 1;
                let s = self.sides[si].as_mut().unwrap();
                let got = s.iov.arena().read_n(Full(p), n as usize, NonZeroUsize::MAX).map_err(|e| format!("read_n failed: {}", e))?;
                if got.slice() != p {
                    return Err("read_n returned bytes other than those delivered".into());
                }
                self.anchored_ranges.push((got.slice().as_ptr() as usize, got.slice().len(), alloc));
                let (_, slice, anchor) = unsafe { got.components() };
                s.iov.push_anchor(anchor);
                s.iov.push_borrowed(slice);
                s.append_bytes(p);
            }
            K::ExtendAnchored(n) => {
                let p = self.payload(n as usize);
                let alloc = self.next_alloc;
                self.next_alloc += 1;
                let s = self.sides[si].as_mut().unwrap();
                let got = s.iov.arena().read_n(Full(p), n as usize, NonZeroUsize::MAX).map_err(|e| format!("read_n failed: {}", e))?;
                if got.slice() != p {
                    return Err("read_n returned bytes other than those delivered".into());
                }
                self.anchored_ranges.push((got.slice().as_ptr() as usize, got.slice().len(), alloc));
                let (_, slice, anchor) = unsafe { got.components() };
                s.iov.extend([IoSlice::new(slice)]);
                s.iov.push_anchor(anchor);
                s.append_bytes(p);
            }
            K::BackfillWrongSize(i) => {
                let s = self.sides[si].as_mut().unwrap();
                let p = s.pending.remove(i as usize);
                let value = vec![0xC7u8; p.len + 1];
                // the token is consumed by the call; the entry stays pending in the iovec, so from here
                // on the model keeps a placeholder that can never be filled (token None)
                let iov = &mut s.iov;
                let token = p.token.expect("enabled() checks");
                let r = catch(std::panic::AssertUnwindSafe(|| iov.backfill_or_panic(token, &value)));
                if r.is_ok() {
                    return Err(format!("[content] backfill_or_panic accepted {} bytes for a {}-byte placeholder", p.len + 1, p.len));
                }
                s.pending.insert(i as usize, Pending { token: None, pos: p.pos, len: p.len, id: p.id });
            }
            K::Extend => {
                let p1 = self.payload(3);
                let p2 = self.payload(70);
                let s = self.sides[si].as_mut().unwrap();
                s.iov.extend([IoSlice::new(p1), IoSlice::new(&PAT[0..0]), IoSlice::new(p2)]);
                s.append_bytes(p1);
                s.append_bytes(p2);
            }
            K::ExtendPanics => {
                let p1 = self.payload(3);
                let p2 = self.payload(70);
                let s = self.sides[si].as_mut().unwrap();
                let before = s.iov.total_size();
                let mut yielded = 0usize;
                let it = std::iter::from_fn(|| {
                    yielded += 1;
                    match yielded {
                        1 => Some(IoSlice::new(p1)),
                        2 => Some(IoSlice::new(p2)),
                        _ => panic!("the caller's iterator panicked"),
                    }
                });
                let iov = &mut s.iov;
                let r = std::panic::catch_unwind(std::panic::AssertUnwindSafe(|| iov.extend(it)));
                if r.is_ok() {
                    return Err("harness: extend did not exhaust the iterator".into());
                }
                // the slices yielded before the panic may or may not have been kept: total_size() says
                // which prefix of them was, and every view must then agree with it
                let added = s.iov.total_size().wrapping_sub(before);
                match added {
                    0 => {}
                    3 => s.append_bytes(p1),
                    73 => {
                        s.append_bytes(p1);
                        s.append_bytes(p2);
                    }
                    other => return Err(format!("[content] after extend() was interrupted by a panic of the caller's iterator (which had yielded 3 and 70 bytes) total_size() grew by {}", other)),
                }
            }
            K::PushAnchored(n) => {
                let p = self.payload(n as usize);
                let alloc = self.next_alloc;
                self.next_alloc += 1;
                let s = self.sides[si].as_mut().unwrap();
                let got = s.iov.arena().read_n(Full(p), n as usize, NonZeroUsize::MAX).map_err(|e| format!("read_n failed: {}", e))?;
                if got.slice() != p {
                    return Err("read_n returned bytes other than those delivered".into());
                }
                self.anchored_ranges.push((got.slice().as_ptr() as usize, got.slice().len(), alloc));
                // the pattern hcobs uses: push the slice, then its anchor
                let (_, slice, anchor) = unsafe { got.components() };
                s.iov.push(slice);
                s.iov.push_anchor(anchor);
                s.append_bytes(p);
            }
            K::Register(n) => {
                let id = self.next_hole;
                self.next_hole += 1;
                self.ever_hole |= n > 0;
                let s = self.sides[si].as_mut().unwrap();
                let filler = vec![HOLE_FILLER; n as usize];
                let token = s.iov.register_patch(&filler);
                if token.len() != n as usize || token.is_empty() != (n == 0) {
                    return Err(format!("[content] register_patch({}) returned a token of length {}", n, token.len()));
                }
                let pos = s.model.len();
                for _ in 0..n {
                    s.model.push(Cell::Hole(id));
                }
                if n == 0 {
                    // an empty token: backfilling it must change nothing
                    let before = s.iov.total_size();
                    s.iov.backfill_or_panic(token, &[]);
                    if s.iov.total_size() != before {
                        return Err("[content] backfilling an empty token changed the contents".into());
                    }
                } else {
                    s.pending.push(Pending { token: Some(token), pos, len: n as usize, id });
                }
            }
            K::Backfill(_) | K::BackfillSame(_) => {
                let s = self.sides[si].as_mut().unwrap();
                let (i, same) = match op.k {
                    K::Backfill(i) => (i, false),
                    K::BackfillSame(i) => (i, true),
                    _ => unreachable!(),
                };
                let idx = if i == 255 { s.pending.len() - 1 } else { i as usize };
                let p = s.pending.remove(idx);
                let value: Vec<u8> = if same { vec![HOLE_FILLER; p.len] } else { (0..p.len).map(|j| 0xB0 + ((p.id as usize * 3 + j) % 16) as u8).collect() };
                s.iov.backfill_or_panic(p.token.expect("enabled() keeps tokenless placeholders out"), &value);
                for (j, b) in value.iter().enumerate() {
                    s.model[p.pos + j] = Cell::Byte(*b);
                }
            }
            K::Clear => {
                let s = self.sides[si].as_mut().unwrap();
                s.iov.clear();
                s.model.clear();
                s.consumed = 0;
                s.pending.clear();
            }
            K::Take => {
                // B := A.take(); A stays behind, empty and usable.
                let s = self.sides[0].as_mut().unwrap();
                let taken = s.iov.take();
                let mut moved = Side {
                    iov: taken,
                    model: std::mem::take(&mut s.model),
                    consumed: s.consumed,
                    pending: std::mem::take(&mut s.pending),
                };
                s.consumed = 0;
                if !s.iov.is_empty() || s.iov.total_size() != 0 || s.iov.has_pending_backrefs() {
                    return Err("[content] take() left a non-empty iovec behind".into());
                }
                // keep exploring: side A is the taken value, side B the left-behind one
                std::mem::swap(s, &mut moved);
                self.sides[1] = Some(moved);
                self.ever_two_sides = true;
            }
            K::FlushCache => {
                self.sides[si].as_mut().unwrap().iov.arena().flush_cache();
            }
            K::SwapArena => {
                let spare = self.spare.take().unwrap_or_default();
                let s = self.sides[si].as_mut().unwrap();
                let old = s.iov.consumer().swap_arena(spare);
                self.spare = Some(old);
            }
            K::Burn(r) => {
                let s = self.sides[si].as_mut().unwrap();
                let arena = s.iov.arena();
                if arena.remaining() <= r as usize {
                    arena.flush_cache();
                }
                arena.ensure_capacity(1);
                let mut left = arena.remaining() - r as usize;
                while left > 0 {
                    let n = left.min(PAT_LEN);
                    let junk = arena.read_n(Full(&PAT[..n]), n, NonZeroUsize::MAX).map_err(|e| format!("read_n failed: {}", e))?;
                    if junk.slice().len() != n {
                        return Err("read_n came up short on a full reader".into());
                    }
                    left -= n;
                }
                if arena.remaining() != r as usize {
                    return Err(format!("remaining() = {} after burning down to {}", arena.remaining(), r));
                }
            }
            K::Reserve(n) => {
                let s = self.sides[si].as_mut().unwrap();
                s.iov.arena().ensure_capacity(n as usize);
                if s.iov.arena().remaining() < n as usize {
                    return Err(format!("remaining() = {} after ensure_capacity({})", s.iov.arena().remaining(), n));
                }
            }
            K::ReadNothing(n) => {
                let s = self.sides[si].as_mut().unwrap();
                let got = s.iov.arena().read_n(Full(&[]), n as usize, NonZeroUsize::MAX).map_err(|e| format!("read_n failed: {}", e))?;
                if !got.slice().is_empty() {
                    return Err("read_n returned bytes from an empty reader".into());
                }
            }
            K::Consume(n) => {
                let s = self.sides[si].as_mut().unwrap();
                let lens = s.stable_lens();
                let count = if n == 255 { usize::MAX } else { n as usize };
                let got = s.iov.consumer().consume(count);
                let want = count.min(lens.len());
                if got != want {
                    return Err(format!("[content] consume({}) returned {} with {} consumable slices", n, got, lens.len()));
                }
                let bytes: usize = lens[..want].iter().sum();
                s.consumed += bytes;
                self.ever_consumed |= bytes > 0;
            }
            K::Advance(n) => {
                let s = self.sides[si].as_mut().unwrap();
                let stable: usize = s.stable_lens().iter().sum();
                let count = if n == 65535 { usize::MAX } else { n as usize };
                let got = s.iov.consumer().advance_slices(count);
                let want = count.min(stable);
                if got != want {
                    return Err(format!("[content] advance_slices({}) returned {} with {} consumable bytes", n, got, stable));
                }
                s.consumed += want;
                self.ever_consumed |= want > 0;
            }
            K::PopFront => {
                let s = self.sides[si].as_mut().unwrap();
                let lens = s.stable_lens();
                s.iov.consumer().pop_front();
                s.consumed += lens[0];
                self.ever_consumed = true;
            }
            K::Read(n) => {
                let s = self.sides[si].as_mut().unwrap();
                let stable: usize = s.stable_lens().iter().sum();
                let mut buf = vec![0x77u8; n as usize];
                let got = s.iov.consumer().read(&mut buf).map_err(|e| format!("read failed: {}", e))?;
                let want = (n as usize).min(stable);
                // a Read implementation may return fewer bytes than asked, but not nothing while bytes are consumable
                if got > want || (got == 0 && want > 0) {
                    return Err(format!("[content] read({}) returned {} with {} consumable bytes", n, got, stable));
                }
                for (j, byte) in buf[..got].iter().enumerate() {
                    if s.model[s.consumed + j] != Cell::Byte(*byte) {
                        return Err(format!("[content] read({}) copied {:#04x} at {} expected {:?}", n, byte, j, s.model[s.consumed + j]));
                    }
                }
                if buf[got..].iter().any(|x| *x != 0x77) {
                    return Err("[content] read wrote past the count it reported".into());
                }
                s.consumed += got;
                self.ever_consumed |= got > 0;
            }
            K::ReadToEnd | K::ReadExact(_) | K::ReadVectored | K::ReadBytes(_) => {
                let s = self.sides[si].as_mut().unwrap();
                let stable: usize = s.stable_lens().iter().sum();
                let total_before = s.iov.total_size();
                let mut out: Vec<u8> = vec![0xEE, 0xEF];
                let (got, reported): (Vec<u8>, usize) = match op.k {
                    K::ReadToEnd => {
                        // read_to_end only returns once a read reports 0 bytes: first make sure, with one
                        // plain 1-byte read on the pipe itself, that reads make progress at all (a read
                        // that hands out bytes without removing them would keep read_to_end busy for ever)
                        let mut probe_taken: Vec<u8> = Vec::new();
                        {
                            let before = s.iov.total_size();
                            let mut one = [0u8; 1];
                            let got = s.iov.consumer().read(&mut one).map_err(|e| format!("read failed: {}", e))?;
                            let after = s.iov.total_size();
                            if got > 1 || (got == 1 && after + 1 != before) || (got == 0 && after != before) {
                                return Err(format!("[content] read() into a 1-byte buffer returned {} ({:#04x}) and total_size() went from {} to {}: bytes handed out are not the bytes removed", got, one[0], before, after));
                            }
                            if got == 0 && stable > 0 {
                                return Err(format!("[content] read() returned nothing with {} consumable bytes", stable));
                            }
                            probe_taken.extend_from_slice(&one[..got]);
                        }
                        let stable = stable - probe_taken.len();
                        let n = s.iov.consumer().read_to_end(&mut out).map_err(|e| format!("read_to_end failed: {}", e))?;
                        if out[..2] != [0xEE, 0xEF] {
                            return Err("[content] read_to_end overwrote the bytes already in the destination".into());
                        }
                        if out.len() != 2 + n {
                            return Err(format!("[content] read_to_end returned {} but appended {} bytes", n, out.len() - 2));
                        }
                        if n != stable {
                            return Err(format!("[content] read_to_end returned {} with {} consumable bytes (it reads until read() returns 0)", n, stable));
                        }
                        let mut all = probe_taken.clone();
                        all.extend_from_slice(&out[2..]);
                        let total = all.len();
                        (all, total)
                    }
                    K::ReadExact(n) => {
                        let mut buf = vec![0x77u8; n as usize];
                        s.iov.consumer().read_exact(&mut buf).map_err(|e| format!("[content] read_exact({}) failed with {} consumable bytes: {}", n, stable, e))?;
                        (buf, n as usize)
                    }
                    K::ReadVectored => {
                        let (mut b0, mut b1, mut b2) = ([0x77u8; 2], [0x77u8; 0], [0x77u8; 70]);
                        let n = {
                            let mut bufs = [std::io::IoSliceMut::new(&mut b0), std::io::IoSliceMut::new(&mut b1), std::io::IoSliceMut::new(&mut b2)];
                            s.iov.consumer().read_vectored(&mut bufs).map_err(|e| format!("read_vectored failed: {}", e))?
                        };
                        let mut all: Vec<u8> = b0.to_vec();
                        all.extend_from_slice(&b2);
                        if n > all.len() || n > stable || (n == 0 && stable > 0) {
                            return Err(format!("[content] read_vectored returned {} with {} consumable bytes and 72 bytes of buffers", n, stable));
                        }
                        if all[n..].iter().any(|x| *x != 0x77) {
                            return Err("[content] read_vectored wrote past the count it reported".into());
                        }
                        all.truncate(n);
                        (all, n)
                    }
                    _ => {
                        let K::ReadBytes(k) = op.k else { unreachable!() };
                        let mut v = Vec::new();
                        let mut c = s.iov.consumer();
                        for b in std::io::Read::bytes(&mut c).take(k as usize) {
                            v.push(b.map_err(|e| format!("bytes() failed: {}", e))?);
                        }
                        if v.len() != (k as usize).min(stable) {
                            return Err(format!("[content] bytes().take({}) yielded {} bytes with {} consumable", k, v.len(), stable));
                        }
                        let n = v.len();
                        (v, n)
                    }
                };
                for (j, byte) in got.iter().enumerate() {
                    if s.consumed + j >= s.model.len() || s.model[s.consumed + j] != Cell::Byte(*byte) {
                        return Err(format!("[content] {} copied {:#04x} at {} expected {:?}", op.name(), byte, j, s.model.get(s.consumed + j)));
                    }
                }
                let removed = total_before - s.iov.total_size().min(total_before);
                if removed != reported {
                    return Err(format!("[content] {} reported {} bytes but {} bytes left the pipe", op.name(), reported, removed));
                }
                s.consumed += reported;
                self.ever_consumed |= reported > 0;
            }
            K::CloneA => {
                let s = self.sides[0].as_ref().unwrap();
                let copy = Side {
                    iov: s.iov.clone(),
                    model: s.model[s.consumed..].to_vec(),
                    consumed: 0,
                    pending: Vec::new(),
                };
                self.sides[1] = Some(copy);
                self.ever_two_sides = true;
            }
            K::CloneFromA => {
                let (sa, sb) = self.sides.split_at_mut(1);
                let a = sa[0].as_ref().unwrap();
                let b = sb[0].as_mut().unwrap();
                b.iov.clone_from(&a.iov);
                b.model = a.model[a.consumed..].to_vec();
                b.consumed = 0;
                b.pending.clear(); // B's own placeholders are gone with its old contents
                self.ever_two_sides = true;
            }
            K::ClonePending => {
                let s = self.sides[0].as_ref().unwrap();
                let copy = Side {
                    iov: s.iov.clone(),
                    model: s.model[s.consumed..].to_vec(),
                    consumed: 0,
                    pending: s.pending.iter().map(|p| Pending { token: None, pos: p.pos - s.consumed, len: p.len, id: p.id }).collect(),
                };
                self.sides[1] = Some(copy);
                self.ever_two_sides = true;
            }
            K::DropSide => {
                self.sides[si] = None;
            }
            K::HoldRead(n) => {
                let p = self.payload(n as usize);
                let alloc = self.next_alloc;
                self.next_alloc += 1;
                let s = self.sides[si].as_mut().unwrap();
                let got = s.iov.arena().read_n(Full(p), n as usize, NonZeroUsize::MAX).map_err(|e| format!("read_n failed: {}", e))?;
                self.anchored_ranges.push((got.slice().as_ptr() as usize, got.slice().len(), alloc));
                self.held.push(Held { slice: got, expect: p.to_vec(), alloc });
            }
            K::HeldPush => {
                let h = self.held.remove(0);
                let s = self.sides[si].as_mut().unwrap();
                let (_, slice, anchor) = unsafe { h.slice.components() };
                s.iov.push(slice);
                s.iov.push_anchor(anchor);
                s.append_bytes(&h.expect);
            }
            K::HeldSplit => {
                let h = self.held.remove(0);
                let mid = 2usize;
                let (l, r) = h.slice.split_at(mid);
                let cut = mid.min(h.expect.len());
                self.held.insert(0, Held { slice: r, expect: h.expect[cut..].to_vec(), alloc: h.alloc });
                self.held.insert(0, Held { slice: l, expect: h.expect[..cut].to_vec(), alloc: h.alloc });
                if self.held.len() > 4 {
                    self.held.truncate(4);
                }
            }
            K::HeldSkip => {
                let h = &mut self.held[0];
                let got = h.slice.skip_prefix(1);
                let want = 1.min(h.expect.len());
                if got != want {
                    return Err(format!("[content] skip_prefix(1) returned {}", got));
                }
                h.expect.drain(..want);
            }
            K::HeldDropSuffix => {
                let h = &mut self.held[0];
                let got = h.slice.drop_suffix(1);
                let want = 1.min(h.expect.len());
                if got != want {
                    return Err(format!("[content] drop_suffix(1) returned {}", got));
                }
                let keep = h.expect.len() - want;
                h.expect.truncate(keep);
            }
            K::HeldClone => {
                let h = &self.held[0];
                let copy = Held { slice: h.slice.clone(), expect: h.expect.clone(), alloc: h.alloc };
                self.held.push(copy);
            }
            K::HeldDrop => {
                self.held.remove(0);
            }
        }
        Ok(())
    }

    /// The full invariant battery.
    pub fn oracle(&mut self) -> Result<(), String> {
        for (i, side) in self.sides.iter_mut().enumerate() {
            if let Some(side) = side {
                side.oracle(if i == 0 { "A" } else { "B" })?;
            }
        }
        // held anchored slices: alive, intact
        for (i, h) in self.held.iter().enumerate() {
            let s = h.slice.slice();
            if !s.is_empty() && !owning_iovec::verif::is_live(s.as_ptr() as usize, s.len()) {
                return Err(format!("[live] held AnchoredSlice #{} points outside every live arena chunk (use after free)", i));
            }
            if s != h.expect.as_slice() {
                return Err(format!("[content] held AnchoredSlice #{} reads [{}] expected [{}]", i, hex(s), hex(&h.expect)));
            }
        }
        // distinct owned allocations never overlap
        let overlap = |x: (usize, usize), y: (usize, usize)| x.0 < y.0 + y.1 && y.0 < x.0 + x.1 && x.1 > 0 && y.1 > 0;
        for i in 0..self.held.len() {
            for j in i + 1..self.held.len() {
                let (x, y) = (&self.held[i], &self.held[j]);
                if x.alloc != y.alloc {
                    let xs = (x.slice.slice().as_ptr() as usize, x.slice.slice().len());
                    let ys = (y.slice.slice().as_ptr() as usize, y.slice.slice().len());
                    if overlap(xs, ys) {
                        return Err(format!("[live] held AnchoredSlices #{} and #{} from distinct reads overlap", i, j));
                    }
                }
            }
        }
        for side in self.sides.iter().flatten() {
            // Slices that touch memory handed out by read_n may legitimately alias held
            // AnchoredSlices (clones, splits) or have been merged with a neighbouring copy;
            // only pure copies are required to be pairwise disjoint.
            let touches_anchored = |p: (usize, usize)| self.anchored_ranges.iter().any(|r| overlap(p, (r.0, r.1)));
            let owned: Vec<(usize, usize)> = side.owned_exposed().into_iter().filter(|p| !touches_anchored(*p)).collect();
            for i in 0..owned.len() {
                for j in i + 1..owned.len() {
                    if overlap(owned[i], owned[j]) {
                        return Err("[live] two exposed slices copied into the arena overlap".to_string());
                    }
                }
                for h in &self.held {
                    let hs = (h.slice.slice().as_ptr() as usize, h.slice.slice().len());
                    if overlap(owned[i], hs) {
                        return Err("[live] an exposed copied slice overlaps a held AnchoredSlice".to_string());
                    }
                }
            }
        }
        Ok(())
    }

    pub fn model_hash(&self) -> u64 {
        let mut parts: Vec<u64> = Vec::new();
        for s in self.sides.iter() {
            match s {
                Some(s) => {
                    // value-free shape: byte/hole pattern + consumed + pending count
                    let shape: Vec<u8> = s.model[s.consumed..].iter().map(|c| matches!(c, Cell::Hole(_)) as u8).collect();
                    parts.push(hash_of(&(shape, s.consumed.min(1 << 20), s.pending.len())));
                }
                None => parts.push(0),
            }
        }
        parts.push(self.held.len() as u64);
        hash_of(&parts)
    }

    pub fn outcome_hash(&self) -> u64 {
        let mut parts: Vec<u64> = Vec::new();
        for s in self.sides.iter().flatten() {
            let stable: usize = s.iov.stable_prefix().iter().map(|x| x.len()).sum();
            parts.push(hash_of(&(s.iov.len(), stable, s.iov.total_size(), s.pending.len())));
        }
        hash_of(&parts)
    }

    /// Ends the execution: fills every outstanding placeholder (newest first),
    /// re-checks, drains everything, drops everything, checks for leaks.
    pub fn finish(mut self, reverse_drop: bool) -> Result<(), String> {
        // One history in three ends WITHOUT backfilling: the iovecs are dropped with placeholders still
        // pending and the caller keeps the (now useless) Backref tokens a little longer.  A token is
        // not one of the objects that own arena memory: the counters must be back once the iovecs,
        // arenas and AnchoredSlices are gone.
        let abandon = oracle(Oracle::Leak) && self.counter % 3 == 2;
        let mut abandoned_tokens: Vec<Backref> = Vec::new();
        for si in 0..2 {
            let Some(s) = self.sides[si].as_mut() else { continue };
            let who = if si == 0 { "A" } else { "B" };
            if abandon && !s.pending.is_empty() {
                s.oracle(who).map_err(|e| format!("at the end: {}", e))?;
                for p in s.pending.drain(..) {
                    if let Some(t) = p.token {
                        abandoned_tokens.push(t);
                    }
                }
                continue;
            }
            if s.pending.iter().any(|p| p.token.is_none()) {
                // a clone that inherited placeholders can never show what lies behind them: it is
                // only checked once more and dropped
                s.oracle(who).map_err(|e| format!("at the end: {}", e))?;
                continue;
            }
            while let Some(p) = s.pending.pop() {
                let value: Vec<u8> = (0..p.len).map(|j| 0xB0 + ((p.id as usize * 3 + j) % 16) as u8).collect();
                s.iov.backfill_or_panic(p.token.unwrap(), &value);
                for (j, b) in value.iter().enumerate() {
                    s.model[p.pos + j] = Cell::Byte(*b);
                }
            }
            s.oracle(who).map_err(|e| format!("after backfilling every placeholder: {}", e))?;
            let total = s.model.len() - s.consumed;
            let got = s.iov.consumer().advance_slices(usize::MAX);
            if got != total {
                return Err(format!("[content] {}: final drain consumed {} of {} bytes", who, got, total));
            }
            s.consumed += got;
            if !s.iov.is_empty() || s.iov.total_size() != 0 {
                return Err(format!("[content] {}: not empty after draining everything", who));
            }
        }
        let Exec { sides, spare, held, live0, .. } = self;
        let [sa, sb] = sides;
        if reverse_drop {
            drop(held);
            drop(spare);
            drop(sb);
            drop(sa);
        } else {
            drop(sa);
            drop(sb);
            drop(spare);
            drop(held);
        }
        let live1 = (ByteArena::num_live_chunks(), ByteArena::num_live_bytes());
        if live1 != live0 {
            return Err(format!(
                "[leak] arena leak: live (chunks, bytes) went from {:?} to {:?} although every iovec, arena and AnchoredSlice was dropped{}",
                live0,
                live1,
                if abandoned_tokens.is_empty() { String::new() } else { format!(" ({} placeholder(s) were left pending; the caller still holds their Backref tokens, which own nothing)", abandoned_tokens.len()) }
            ));
        }
        drop(abandoned_tokens);
        Ok(())
    }
}

/// Runs a whole history from scratch, oracle after the last step and at the end.
/// Returns Err(description) on a violation.
pub fn run_history(start: Start, path: &[Op], oracle_every_step: bool) -> Result<(), String> {
    set_breadcrumb(format!("start: {}\nhistory: {}\n", start.name(), render(path)).as_bytes());
    let body = || -> Result<(), String> {
        let mut ex = Exec::new(start);
        for (i, op) in path.iter().enumerate() {
            if !ex.enabled(*op) {
                return Err(format!("step {} ({}) is not enabled (harness bug or changed enabledness)", i + 1, op.name()));
            }
            ex.apply(*op).map_err(|e| format!("step {} ({}): {}", i + 1, op.name(), e))?;
            if oracle_every_step {
                ex.oracle().map_err(|e| format!("after step {} ({}): {}", i + 1, op.name(), e))?;
            }
        }
        ex.oracle().map_err(|e| format!("after the last step: {}", e))?;
        ex.finish(path.len() % 2 == 1).map_err(|e| format!("at the end: {}", e))
    };
    let r = match catch(body) {
        Ok(r) => r,
        Err(p) => Err(format!("panic: {}", p)),
    };
    owning_iovec::verif::drain_quarantine();
    r
}
