//! iovec_mc: stateless exploration of ALL operation histories (to a depth
//! bound, over property-specific alphabets, from fresh and non-initial starts)
//! of the real OwningIovec against a reference model.  Decides C03, C04, C05,
//! C20 and the leak clause of C10.
mod exec;

use exec::*;
use mc_core::*;

/// Alphabet A (C03): the general producer/consumer alphabet.
fn alphabet_a() -> Vec<Op> {
    vec![
        a(K::Push(1)),
        a(K::Push(65)),
        a(K::Push(256)),
        a(K::Push(257)),
        a(K::PushCopy(3)),
        a(K::PushCopy(70)),
        a(K::PushBorrowed(3)),
        a(K::Extend),
        a(K::PushAnchored(5)),
        a(K::PushAnchored(300)),
        a(K::Register(1)),
        a(K::Backfill(0)),
        a(K::Clear),
        a(K::Take),
        a(K::FlushCache),
        a(K::SwapArena),
        a(K::Burn(1)),
        a(K::Burn(70)),
        a(K::Reserve(100)),
        a(K::Consume(1)),
        a(K::Consume(255)),
        a(K::Advance(1)),
        a(K::Advance(66)),
        a(K::Advance(65535)),
        a(K::PopFront),
        a(K::Read(2)),
        a(K::Read(5)),
        a(K::Read(300)),
    ]
}

/// The rarely used entry points next to a core of ordinary ones: the provided methods of the Read
/// trait (which an implementation may override) and `extend` with an iterator that panics midway.
fn alphabet_a_rare() -> Vec<Op> {
    vec![
        a(K::Push(65)),
        a(K::Push(257)),
        a(K::PushCopy(3)),
        a(K::PushAnchored(300)),
        a(K::Register(1)),
        a(K::Backfill(0)),
        a(K::Consume(1)),
        a(K::Advance(66)),
        a(K::Read(5)),
        a(K::Clear),
        a(K::ReadToEnd),
        a(K::ReadExact(5)),
        a(K::ReadVectored),
        a(K::ReadBytes(3)),
        a(K::ExtendPanics),
    ]
}

/// Reduced alphabet for the deepest C03 tier (incl. an anchored read that is held and pushed late).
fn alphabet_a_small() -> Vec<Op> {
    vec![
        a(K::Push(65)),
        a(K::Push(256)),
        a(K::PushCopy(3)),
        a(K::PushAnchored(300)),
        a(K::Register(1)),
        a(K::Backfill(0)),
        a(K::Burn(1)),
        a(K::Consume(1)),
        a(K::Advance(1)),
        a(K::Advance(66)),
        a(K::Read(5)),
        a(K::Clear),
        // an anchored read held across other operations and pushed late
        a(K::HoldRead(70)),
        a(K::HeldPush),
        a(K::ReadBytes(3)),
        a(K::ReadToEnd),
    ]
}

/// Alphabet B (C04): backpatch-focused.
fn alphabet_b() -> Vec<Op> {
    vec![
        a(K::Register(1)),
        a(K::Register(2)),
        a(K::Register(0)),
        a(K::Backfill(0)),
        a(K::Backfill(1)),
        a(K::Backfill(2)),
        a(K::Backfill(255)),
        a(K::PushCopy(3)),
        a(K::PushBorrowed(3)),
        a(K::Push(100)),
        a(K::FlushCache),
        // leaves 4 bytes in the arena chunk: push_copy(3) then ends 1 byte short of the chunk end,
        // so the next placeholder opens a new chunk
        a(K::Burn(4)),
        a(K::Consume(1)),
        a(K::Consume(255)),
        a(K::Advance(1)),
        a(K::Advance(65535)),
        // the views of a clone taken while placeholders are pending hide them too
        a(K::ClonePending),
    ]
}

/// Alphabet C (C05, C10 leak clause): A plus clones, drops and held AnchoredSlices.
fn alphabet_c(full: bool) -> Vec<Op> {
    let mut v = vec![
        a(K::Push(65)),
        a(K::Push(256)),
        a(K::PushCopy(3)),
        a(K::PushCopy(70)),
        a(K::PushAnchored(5)),
        a(K::PushAnchored(300)),
        a(K::Register(1)),
        a(K::Backfill(0)),
        a(K::Clear),
        a(K::Take),
        a(K::FlushCache),
        a(K::SwapArena),
        a(K::Burn(1)),
        a(K::Reserve(100)),
        a(K::Consume(1)),
        a(K::Advance(1)),
        a(K::Advance(66)),
        a(K::CloneA),
        a(K::DropSide),
        b(K::DropSide),
        b(K::PushCopy(3)),
        b(K::Consume(1)),
        a(K::HoldRead(5)),
        a(K::HoldRead(300)),
        a(K::HeldPush),
        a(K::HeldSplit),
        a(K::HeldDrop),
    ];
    if full {
        v.extend([
            a(K::Push(1)),
            a(K::Extend),
            a(K::Burn(70)),
            a(K::Consume(255)),
            a(K::Advance(65535)),
            a(K::Read(5)),
            a(K::HeldSkip),
            a(K::HeldDropSuffix),
            a(K::HeldClone),
            b(K::FlushCache),
            b(K::Advance(1)),
            b(K::Clear),
        ]);
    }
    v
}

/// Alphabet E (C05, C10): anchored memory.  Several AnchoredSlices read from the same chunk and
/// held across arena turn-overs, pushed late, with partial consumption in between; reads that
/// fill the current chunk exactly (burn(70) then a 70-byte read).
fn alphabet_e() -> Vec<Op> {
    alphabet_e_ext().into_iter().filter(|o| !matches!(o.k, K::PushAnchored(5) | K::ExtendAnchored(_) | K::AnchorFirst(_) | K::ExtendPanics)).collect()
}

/// Alphabet E plus the less usual ways for anchored memory to enter (short slices, extend, anchor first).
fn alphabet_e_ext() -> Vec<Op> {
    vec![
        a(K::HoldRead(300)),
        a(K::HoldRead(70)),
        a(K::HeldPush),
        a(K::HeldDrop),
        a(K::PushAnchored(300)),
        a(K::PushAnchored(70)),
        a(K::PushAnchored(5)),
        a(K::ExtendAnchored(300)),
        a(K::ExtendPanics),
        a(K::AnchorFirst(300)),
        a(K::PushCopy(3)),
        a(K::Push(65)),
        a(K::FlushCache),
        a(K::Burn(70)),
        a(K::Consume(1)),
        a(K::Advance(66)),
    ]
}

/// Alphabet F (C03, C04): the end of an arena chunk.  Copies that leave 1 or 4 bytes in the current
/// chunk, then copies and placeholders both smaller and larger than that remainder (placeholders of
/// 70 bytes are legal: register_patch takes any pattern), rejected backfills, consumption.
fn alphabet_f() -> Vec<Op> {
    vec![
        a(K::Burn(4)),
        a(K::Burn(1)),
        a(K::PushCopy(3)),
        a(K::PushCopy(70)),
        a(K::Register(1)),
        a(K::Register(70)),
        a(K::Backfill(0)),
        a(K::Backfill(255)),
        a(K::BackfillWrongSize(0)),
        a(K::BackfillSame(0)),
        a(K::Consume(255)),
        a(K::Advance(65535)),
        a(K::FlushCache),
    ]
}

/// C20 prefix alphabet (producer/consumer subset).
fn alphabet_d_prefix() -> Vec<Op> {
    vec![
        a(K::Push(65)),
        a(K::PushCopy(3)),
        a(K::PushCopy(70)),
        a(K::PushAnchored(300)),
        a(K::AnchorFirst(300)),
        a(K::Register(1)),
        a(K::Backfill(0)),
        a(K::Consume(1)),
        a(K::Advance(1)),
        a(K::Burn(1)),
        a(K::Reserve(100)),
        a(K::ReadNothing(50)),
        a(K::FlushCache),
    ]
}

/// C20 suffix alphabet: ops addressed to either side.
fn alphabet_d_suffix() -> Vec<Op> {
    let mut v = Vec::new();
    for side in [a as fn(K) -> Op, b as fn(K) -> Op] {
        v.extend([
            side(K::PushCopy(3)),
            side(K::Push(65)),
            side(K::Register(1)),
            side(K::Backfill(0)),
            side(K::Consume(1)),
            side(K::Advance(1)),
            side(K::Clear),
            side(K::DropSide),
            side(K::FlushCache),
        ]);
    }
    // B overwritten by `clone_from(&A)` (B may have placeholders of its own pending at that point)
    v.push(a(K::CloneFromA));
    v
}

/// Non-initial starts: fixed op prefixes executed before the enumerated suffix.
fn seeds() -> Vec<(&'static str, Vec<Op>)> {
    vec![
        ("two-chunk-turnovers", vec![a(K::Burn(1)), a(K::PushCopy(70)), a(K::Burn(1)), a(K::PushCopy(70))]),
        ("partially-consumed-merged-slice", vec![a(K::PushCopy(3)), a(K::PushCopy(3)), a(K::Advance(1))]),
        ("after-clear-with-pending", vec![a(K::Push(65)), a(K::Register(1)), a(K::PushCopy(3)), a(K::Clear)]),
        ("taken", vec![a(K::PushCopy(70)), a(K::Register(1)), a(K::Take)]),
        ("hole-in-merged-slice", vec![a(K::PushCopy(3)), a(K::Register(1)), a(K::PushCopy(3)), a(K::Push(65))]),
    ]
}

/// Non-initial states with many placeholders in flight (the pending table is a SortedDeque: removing
/// interior entries leaves tombstones; six or seven pending entries with data in between reach shapes
/// the depth-bounded search from empty cannot).
fn pending_seeds() -> Vec<(&'static str, Vec<Op>)> {
    vec![
        ("six-pending", vec![a(K::Register(1)), a(K::PushCopy(3)), a(K::Register(1)), a(K::Register(2)), a(K::PushBorrowed(3)), a(K::Register(1)), a(K::Register(1)), a(K::Register(1))]),
        ("five-pending-two-filled", vec![a(K::Register(1)), a(K::Register(1)), a(K::Register(1)), a(K::PushCopy(3)), a(K::Register(1)), a(K::Register(1)), a(K::Backfill(1)), a(K::Backfill(2))]),
        // eight out-of-order fills after one in-order fill: thresholds of any tombstone compaction in the pending table
        ("twelve-pending-eight-filled", {
            let mut v: Vec<Op> = (0..12).map(|i| if i % 4 == 3 { a(K::Register(2)) } else { a(K::Register(1)) }).collect();
            v.insert(6, a(K::PushCopy(3)));
            v.push(a(K::Backfill(0)));
            for _ in 0..7 {
                v.push(a(K::Backfill(1)));
            }
            v
        }),
        // neighbours filled in swapped order (the later one first), three times, then three in a row:
        // tombstones repeatedly leave through the front of the pending table
        ("twelve-pending-swapped-pairs", {
            let mut v: Vec<Op> = (0..12).map(|i| if i % 4 == 3 { a(K::Register(2)) } else { a(K::Register(1)) }).collect();
            v.insert(5, a(K::PushCopy(3)));
            for _ in 0..2 {
                v.push(a(K::Backfill(1)));
                v.push(a(K::Backfill(0)));
            }
            v.extend([a(K::Backfill(1)), a(K::Backfill(1)), a(K::Backfill(1))]);
            v
        }),
        ("seven-pending-across-slices", vec![a(K::Register(1)), a(K::Push(100)), a(K::Register(1)), a(K::Register(1)), a(K::Push(100)), a(K::Register(1)), a(K::Register(1)), a(K::Register(2)), a(K::Register(1))]),
    ]
}

struct Explorer<'a> {
    ctx: &'a Ctx,
    rep: &'a mut Report,
    alphabet: Vec<Op>,
    start: Start,
    prefix: Vec<Op>,
    max_depth: usize,
    unit: usize,
    label: String,
    key_prefix: &'static str,
    stopped: bool,
    /// every second op (the odd steps) is applied on a freshly spawned helper thread: the objects
    /// move between threads (they are Send), the way a pipeline hands buffers from stage to stage
    threaded: bool,
}

impl Explorer<'_> {
    /// Executes `prefix ++ path` from scratch; judges it; returns the ops enabled afterwards.
    fn visit(&mut self, path: &[Op], judged: bool) -> Option<Vec<Op>> {
        let full: Vec<Op> = self.prefix.iter().chain(path.iter()).copied().collect();
        let mut enabled: Vec<Op> = Vec::new();
        let mut meta = (0u64, 0u64, false);
        let alphabet = &self.alphabet;
        let start = self.start;
        let threaded = self.threaded;
        set_breadcrumb(format!("start: {}\nthreads: {}\nhistory: {}\n", start.name(), if threaded { "alternate" } else { "one" }, render(&full)).as_bytes());
        let body = || -> Result<(), String> {
            let mut ex = Exec::new(start);
            for (i, op) in full.iter().enumerate() {
                if !ex.enabled(*op) {
                    return Err(format!("step {} ({}) is not enabled (harness bug)", i + 1, op.name()));
                }
                apply_maybe_threaded(&mut ex, *op, threaded && i % 2 == 1).map_err(|e| format!("step {} ({}): {}", i + 1, op.name(), e))?;
            }
            ex.oracle().map_err(|e| format!("after the last step: {}", e))?;
            enabled = alphabet.iter().copied().filter(|o| ex.enabled(*o)).collect();
            meta = (ex.model_hash(), ex.outcome_hash(), ex.ever_consumed || ex.ever_hole || ex.ever_two_sides);
            ex.finish(full.len() % 2 == 1).map_err(|e| format!("at the end: {}", e))
        };
        let r = match catch(body) {
            Ok(r) => r,
            Err(p) => Err(format!("panic: {}", p)),
        };
        owning_iovec::verif::drain_quarantine();
        if judged {
            self.rep.evaluations += 1;
            self.rep.transitions += full.len() as u64;
            self.rep.max_depth = self.rep.max_depth.max(path.len() as u64);
        }
        match r {
            Ok(()) => {
                if judged {
                    self.rep.state(meta.0);
                    self.rep.outcome(meta.1);
                    if meta.2 {
                        self.rep.nontrivial += 1;
                    }
                    if self.rep.want_sample() {
                        self.rep.sample(format!("[{} / {}] {}", self.label, self.start.name(), render(&full)));
                    }
                }
                Some(enabled)
            }
            Err(e) if !relevant(&e) => {
                // a failure of a *sibling* property's oracle: not this check's alarm; the history is
                // not extended (the state can no longer be trusted)
                if judged {
                    self.rep.count("executions_failing_only_a_sibling_oracle", 1);
                }
                None
            }
            Err(e) => {
                if judged {
                    // must reproduce, twice, with the same description
                    let again = if self.threaded { run_history_threaded(self.start, &full) } else { run_history(self.start, &full, false) };
                    if again.as_ref().err() != Some(&e) {
                        machinery_failure(&format!("violation did not reproduce identically: [{}] first: {} / replay: {:?}", render(&full), e, again));
                    }
                    let hist = render(&full);
                    self.rep.violation(Violation {
                        key: format!("{}:{}:{}", self.key_prefix, self.start.name(), hist.replace(' ', "")),
                        summary: format!("OwningIovec [{}] {}: {}", self.start.name(), hist, e),
                        replay_text: format!("start: {}\nthreads: {}\nhistory: {}\nobserved: {}\n", self.start.name(), if self.threaded { "alternate" } else { "one" }, hist, e),
                    });
                }
                None
            }
        }
    }

    fn dfs(&mut self, path: &mut Vec<Op>, owned: bool) {
        if self.stopped {
            return;
        }
        // Levels 0..=1 are walked by every worker (to learn enabledness) but judged by
        // the owner of unit 0; level-2 nodes and everything below belong to one worker.
        let depth = path.len();
        let (judged, owned_below) = if depth < 2 {
            (self.ctx.owns(0), false)
        } else if depth == 2 {
            let u = self.unit;
            self.unit += 1;
            let mine = self.ctx.owns(u);
            (mine, mine)
        } else {
            (owned, owned)
        };
        if depth >= 2 && !owned_below {
            return;
        }
        if self.rep.violations.len() as u64 + self.rep.violations_dropped >= 8 {
            // eight reports from one worker decide the run; a violating execution can be very slow
            // (a loop that only ends when memory runs out), so the worker stops here
            self.stopped = true;
            self.rep.not_exhaustive = true;
            self.rep.note(format!("stopped after eight violations in this worker while exploring [{}]: the run is NOT exhaustive", self.label));
            return;
        }
        if self.ctx.out_of_time() {
            self.stopped = true;
            self.rep.not_exhaustive = true;
            self.rep.note(format!("wall cap hit while exploring [{}] at depth {}: the run is NOT exhaustive", self.label, self.max_depth));
            return;
        }
        let Some(enabled) = self.visit(path, judged) else {
            return;
        };
        if depth >= self.max_depth {
            return;
        }
        for op in enabled {
            path.push(op);
            self.dfs(path, owned_below);
            path.pop();
        }
    }
}

fn explore(ctx: &Ctx, rep: &mut Report, key_prefix: &'static str, label: &str, alphabet: Vec<Op>, start: Start, prefix: Vec<Op>, depth: usize) {
    let n = alphabet.len();
    explore_mode(ctx, rep, key_prefix, label, alphabet, start, prefix, depth, false);
    let _ = n;
}

fn explore_mode(ctx: &Ctx, rep: &mut Report, key_prefix: &'static str, label: &str, alphabet: Vec<Op>, start: Start, prefix: Vec<Op>, depth: usize, threaded: bool) {
    let n = alphabet.len();
    let mut ex = Explorer { ctx, rep, alphabet, start, prefix, max_depth: depth, unit: 0, label: label.to_string(), key_prefix, stopped: false, threaded };
    let mut path = Vec::new();
    ex.dfs(&mut path, false);
    let stopped = ex.stopped;
    rep.note(format!("{}: all histories over {} ops to depth {} from start '{}'{}{}", label, n, depth, start.name(), if threaded { ", every second op applied on a freshly spawned helper thread (the objects move between threads)" } else { "" }, if stopped { " (INCOMPLETE: wall cap)" } else { "" }));
}

/// Applies `op` here, or on a fresh helper thread that is joined before the next op.
fn apply_maybe_threaded(ex: &mut Exec, op: Op, on_helper: bool) -> Result<(), String> {
    if !on_helper {
        return ex.apply(op);
    }
    std::thread::scope(|s| {
        let h = s.spawn(|| match catch(|| ex.apply(op)) {
            Ok(r) => r,
            Err(p) => Err(format!("panic (on the helper thread): {}", p)),
        });
        match h.join() {
            Ok(r) => r,
            Err(_) => Err("the helper thread died".to_string()),
        }
    })
}

/// Replays a history with the odd steps on helper threads.
fn run_history_threaded(start: Start, path: &[Op]) -> Result<(), String> {
    let body = || -> Result<(), String> {
        let mut ex = Exec::new(start);
        for (i, op) in path.iter().enumerate() {
            if !ex.enabled(*op) {
                return Err(format!("step {} ({}) is not enabled (harness bug or changed enabledness)", i + 1, op.name()));
            }
            apply_maybe_threaded(&mut ex, *op, i % 2 == 1).map_err(|e| format!("step {} ({}): {}", i + 1, op.name(), e))?;
        }
        ex.oracle().map_err(|e| format!("after the last step: {}", e))?;
        ex.finish(path.len() % 2 == 1).map_err(|e| format!("at the end: {}", e))
    };
    let r = match catch(body) {
        Ok(r) => r,
        Err(p) => Err(format!("panic: {}", p)),
    };
    owning_iovec::verif::drain_quarantine();
    r
}

/// Periodic unrollings: every cycle of 1..=max_len ops over the alphabet, repeated `reps` times (an op
/// that is not enabled when its turn comes is skipped), with the full oracle after every repetition and
/// the usual backfill / drain / drop / leak accounting at the end.  Reaches what a depth bound cannot:
/// anything that needs the N-th occurrence of an event (arena size classes, container growth, counters,
/// thresholds, wrap-arounds of small indices).  The finder's verdict is re-derived by `run_history` on the
/// ops actually applied, so that the replay artefact is an ordinary history.
fn explore_cycles(ctx: &Ctx, rep: &mut Report, key_prefix: &'static str, label: &str, alphabet: Vec<Op>, start: Start, prefix: Vec<Op>, max_len: usize, reps: usize) {
    explore_cycles_sparse(ctx, rep, key_prefix, label, alphabet, start, prefix, max_len, reps, 1)
}

/// The same with the full oracle only after every `oracle_every`-th repetition (long unrollings).
fn explore_cycles_sparse(ctx: &Ctx, rep: &mut Report, key_prefix: &'static str, label: &str, alphabet: Vec<Op>, start: Start, prefix: Vec<Op>, max_len: usize, reps: usize, oracle_every: usize) {
    let n = alphabet.len();
    let mut unit = 0usize;
    let mut cycles = 0u64;
    let mut stopped = false;
    'outer: for len in 1..=max_len {
        let total = n.pow(len as u32);
        for c in 0..total {
            let mine = ctx.owns(unit);
            unit += 1;
            if !mine {
                continue;
            }
            if ctx.out_of_time() || rep.violations.len() as u64 + rep.violations_dropped >= 8 {
                stopped = true;
                rep.not_exhaustive = true;
                rep.note(format!("wall cap or eight violations in this worker while exploring [{}]: the run is NOT exhaustive", label));
                break 'outer;
            }
            let mut x = c;
            let mut cycle: Vec<Op> = Vec::with_capacity(len);
            for _ in 0..len {
                cycle.push(alphabet[x % n]);
                x /= n;
            }
            // a cycle that is a repetition of a shorter one was already unrolled
            if (1..len).any(|d| len % d == 0 && (0..len).all(|i| cycle[i] == cycle[i % d])) {
                continue;
            }
            cycles += 1;
            run_cycle(rep, key_prefix, label, start, &prefix, &cycle, reps, oracle_every);
        }
    }
    rep.count("cycles_unrolled", cycles);
    rep.note(format!("{}: every cycle of 1..={} ops over {} ops, unrolled {} times from start '{}' (disabled ops skipped), oracle after every repetition{}", label, max_len, n, reps, start.name(), if stopped { " (INCOMPLETE: wall cap)" } else { "" }));
}

fn run_cycle(rep: &mut Report, key_prefix: &'static str, label: &str, start: Start, prefix: &[Op], cycle: &[Op], reps: usize, oracle_every: usize) {
    let mut applied: Vec<Op> = Vec::new();
    let mut meta = (0u64, 0u64, false);
    let mut oracle_runs = 0u64;
    let body = |applied: &mut Vec<Op>, meta: &mut (u64, u64, bool), oracle_runs: &mut u64| -> Result<(), String> {
        let mut ex = Exec::new(start);
        if oracle_every > 1 {
            // long unrollings leave no breadcrumbs (their text would be megabytes): no watchdog either
            clear_breadcrumb();
        }
        for op in prefix {
            if !ex.enabled(*op) {
                return Err(format!("prefix op {} is not enabled (harness bug)", op.name()));
            }
            applied.push(*op);
            if oracle_every == 1 {
                set_breadcrumb(format!("start: {}\nhistory: {}\n", start.name(), render(applied)).as_bytes());
            }
            ex.apply(*op).map_err(|e| format!("step {} ({}): {}", applied.len(), op.name(), e))?;
        }
        for r in 0..reps {
            for op in cycle {
                if !ex.enabled(*op) {
                    continue;
                }
                applied.push(*op);
                if oracle_every == 1 {
                    set_breadcrumb(format!("start: {}\nhistory: {}\n", start.name(), render(applied)).as_bytes());
                }
                ex.apply(*op).map_err(|e| format!("step {} ({}): {}", applied.len(), op.name(), e))?;
            }
            if (r + 1) % oracle_every == 0 || r + 1 == reps {
                *oracle_runs += 1;
                ex.oracle().map_err(|e| format!("after the last step: {}", e))?;
            }
        }
        *meta = (ex.model_hash(), ex.outcome_hash(), ex.ever_consumed || ex.ever_hole || ex.ever_two_sides);
        ex.finish(applied.len() % 2 == 1).map_err(|e| format!("at the end: {}", e))
    };
    let r = match catch(|| body(&mut applied, &mut meta, &mut oracle_runs)) {
        Ok(r) => r,
        Err(p) => Err(format!("panic: {}", p)),
    };
    owning_iovec::verif::drain_quarantine();
    rep.evaluations += oracle_runs.max(1);
    rep.transitions += applied.len() as u64;
    rep.count_max("max_history_ops", applied.len() as u64);
    match r {
        Ok(()) => {
            rep.state(meta.0);
            rep.outcome(meta.1);
            if meta.2 {
                rep.nontrivial += 1;
            }
            if rep.want_sample() {
                rep.sample(format!("[{} / {}] cycle [{}] x {} = {} ops", label, start.name(), render(cycle), reps, applied.len()));
            }
        }
        Err(e) if !relevant(&e) => {
            rep.count("executions_failing_only_a_sibling_oracle", 1);
        }
        Err(e) => {
            // the verdict is that of the plain history of the ops applied so far; it must fail, twice, identically
            let first = run_history(start, &applied, false);
            let again = run_history(start, &applied, false);
            let Err(desc) = first.clone() else {
                machinery_failure(&format!("cycle finder failure did not reproduce as a plain history: [{}] finder: {}", render(&applied), e));
            };
            if again.as_ref().err() != Some(&desc) {
                machinery_failure(&format!("violation did not reproduce identically: [{}] first: {} / replay: {:?}", render(&applied), desc, again));
            }
            if !relevant(&desc) {
                rep.count("executions_failing_only_a_sibling_oracle", 1);
                return;
            }
            let hist = render(&applied);
            rep.violation(Violation {
                key: format!("{}:{}:{}", key_prefix, start.name(), hist.replace(' ', "")),
                summary: format!("OwningIovec [{}] cycle [{}] unrolled, {} ops: {}: {}", start.name(), render(cycle), applied.len(), hist, desc),
                replay_text: format!("start: {}\nhistory: {}\nobserved: {}\n", start.name(), hist, desc),
            });
        }
    }
}

/// C20: prefix . clone|take . suffix
fn explore_c20(ctx: &Ctx, rep: &mut Report, prefix_depth: usize, suffix_depth: usize) {
    // Enumerate prefixes (all sequences over the prefix alphabet to prefix_depth), then the
    // split op, then all suffixes.  A prefix is usable for `clone` only if no hole is pending
    // afterwards (enabledness of CloneA takes care of that).
    let pa = alphabet_d_prefix();
    let mut prefixes: Vec<Vec<Op>> = vec![vec![]];
    let mut frontier: Vec<Vec<Op>> = vec![vec![]];
    for _ in 0..prefix_depth {
        let mut next = Vec::new();
        for p in &frontier {
            // learn enabledness by executing
            let mut ex = Exec::new(Start::Fresh);
            let mut ok = true;
            for op in p {
                if !ex.enabled(*op) || catch(|| ex.apply(*op)).map(|r| r.is_err()).unwrap_or(true) {
                    ok = false;
                    break;
                }
            }
            if !ok {
                continue;
            }
            for op in &pa {
                if ex.enabled(*op) {
                    let mut q = p.clone();
                    q.push(*op);
                    next.push(q);
                }
            }
            drop(ex);
            owning_iovec::verif::drain_quarantine();
        }
        prefixes.extend(next.iter().cloned());
        frontier = next;
    }
    let mut unit_base = 0usize;
    for split in [a(K::CloneA), a(K::Take)] {
        for p in &prefixes {
            // is the split enabled after p?
            let mut ex = Exec::new(Start::Fresh);
            for op in p {
                let _ = catch(|| ex.apply(*op));
            }
            let enabled = ex.enabled(split);
            drop(ex);
            owning_iovec::verif::drain_quarantine();
            if !enabled {
                continue;
            }
            let mut prefix = p.clone();
            prefix.push(split);
            let mut e = Explorer {
                ctx,
                rep,
                alphabet: alphabet_d_suffix(),
                start: Start::Fresh,
                prefix,
                max_depth: suffix_depth,
                unit: unit_base,
                label: format!("C20 {}", split.name()),
                key_prefix: "C20",
                stopped: false,
                threaded: false,
            };
            let mut path = Vec::new();
            e.dfs(&mut path, false);
            unit_base = e.unit + 7; // de-correlate the partition between prefixes
        }
    }
    rep.note(format!(
        "C20: {} prefixes (all sequences over {} ops to depth {}) x {{clone, take}} x all suffixes over {} two-sided ops to depth {}",
        prefixes.len(),
        pa.len(),
        prefix_depth,
        alphabet_d_suffix().len(),
        suffix_depth
    ));
}

fn run(ctx: &Ctx) -> Report {
    let mut rep = Report::new();
    owning_iovec::verif::set_quarantine(true);
    select_oracles(&ctx.prop);
    let t = ctx.tier;
    match ctx.prop.as_str() {
        "C03" => {
            explore(ctx, &mut rep, "C03", "C03 alphabet A", alphabet_a(), Start::Fresh, vec![], t.pick(5, 6));
            explore(ctx, &mut rep, "C03", "C03 rare entry points", alphabet_a_rare(), Start::Fresh, vec![], t.pick(5, 6));
            explore_cycles(ctx, &mut rep, "C03", "C03 cycles, rare entry points", alphabet_a_rare(), Start::Fresh, vec![], 3, t.pick(16, 40));
            explore(ctx, &mut rep, "C03", "C03 alphabet A", alphabet_a(), Start::FromSlices, vec![], t.pick(3, 5));
            explore(ctx, &mut rep, "C03", "C03 alphabet A", alphabet_a(), Start::FromIter, vec![], t.pick(3, 5));
            explore(ctx, &mut rep, "C03", "C03 reduced alphabet", alphabet_a_small(), Start::Fresh, vec![], t.pick(6, 8));
            for (name, seed) in seeds() {
                explore(ctx, &mut rep, "C03", &format!("C03 alphabet A after seed {}", name), alphabet_a(), Start::Fresh, seed, t.pick(3, 5));
            }
            for (name, seed) in pending_seeds() {
                explore(ctx, &mut rep, "C03", &format!("C03 backpatch alphabet B after seed {}", name), alphabet_b(), Start::Fresh, seed, t.pick(4, 5));
            }
            explore(ctx, &mut rep, "C03", "C03 alphabet F (chunk end)", alphabet_f(), Start::Fresh, vec![], t.pick(6, 7));
            explore_mode(ctx, &mut rep, "C03", "C03 alphabet A across threads", alphabet_a(), Start::Fresh, vec![], t.pick(3, 4), true);
            explore_mode(ctx, &mut rep, "C03", "C03 reduced alphabet across threads", alphabet_a_small(), Start::Fresh, vec![], t.pick(4, 5), true);
            explore_cycles(ctx, &mut rep, "C03", "C03 cycles, alphabet A", alphabet_a(), Start::Fresh, vec![], t.pick(3, 3), t.pick(16, 40));
            explore_cycles(ctx, &mut rep, "C03", "C03 cycles, alphabet B", alphabet_b(), Start::Fresh, vec![], t.pick(3, 4), t.pick(16, 40));
            explore_cycles(ctx, &mut rep, "C03", "C03 cycles, reduced alphabet", alphabet_a_small(), Start::Fresh, vec![], t.pick(3, 4), t.pick(16, 40));
            explore_cycles(ctx, &mut rep, "C03", "C03 cycles, alphabet F", alphabet_f(), Start::Fresh, vec![], t.pick(3, 4), t.pick(16, 40));
            // long pipes: well over a thousand slices buffered at once (limits such as IOV_MAX = 1024 live there)
            let many = vec![a(K::PushBorrowed(3)), a(K::Push(257)), a(K::PushCopy(3)), a(K::Register(1)), a(K::Backfill(0)), a(K::Consume(1)), a(K::Read(300)), a(K::PushAnchored(300))];
            explore_cycles_sparse(ctx, &mut rep, "C03", "C03 long unrollings (1100 repetitions)", many, Start::Fresh, vec![], 2, t.pick(1100, 2200), 275);
            // marathons: the 65 536th occurrence of an event (narrow counters of slices, anchors, placeholders, bytes)
            let marathon = vec![a(K::PushCopy(3)), a(K::PushBorrowed(3)), a(K::Register(1)), a(K::Backfill(0)), a(K::Consume(1)), a(K::Advance(1)), a(K::PushAnchored(70))];
            explore_cycles_sparse(ctx, &mut rep, "C03", "C03 marathons (70 000 repetitions)", marathon, Start::Fresh, vec![], 2, 70_000, 17_500);
        }
        "C04" => {
            // the 16 single-pipe ops to the full depth; with the clone-while-pending op one level shallower
            let b_core: Vec<Op> = alphabet_b().into_iter().filter(|o| o.k != K::ClonePending).collect();
            explore(ctx, &mut rep, "C04", "C04 alphabet B", b_core, Start::Fresh, vec![], t.pick(7, 8));
            explore(ctx, &mut rep, "C04", "C04 alphabet B + clone while pending", alphabet_b(), Start::Fresh, vec![], t.pick(6, 7));
            // the byte-stream views: Read::read and the provided Read methods an implementation may override
            let mut b_read: Vec<Op> = alphabet_b().into_iter().filter(|o| !matches!(o.k, K::ClonePending | K::Register(0) | K::Backfill(2) | K::Burn(4) | K::FlushCache)).collect();
            b_read.extend([a(K::Read(2)), a(K::ReadToEnd), a(K::ReadVectored), a(K::ReadBytes(3)), a(K::BackfillSame(0))]);
            explore(ctx, &mut rep, "C04", "C04 alphabet B (reduced) + Read views", b_read.clone(), Start::Fresh, vec![], t.pick(6, 7));
            explore_cycles(ctx, &mut rep, "C04", "C04 cycles, alphabet B (reduced) + Read views", b_read, Start::Fresh, vec![], t.pick(3, 4), t.pick(16, 40));
            for (name, seed) in seeds() {
                explore(ctx, &mut rep, "C04", &format!("C04 alphabet B after seed {}", name), alphabet_b(), Start::Fresh, seed, t.pick(4, 6));
            }
            for (name, seed) in pending_seeds() {
                explore(ctx, &mut rep, "C04", &format!("C04 alphabet B after seed {}", name), alphabet_b(), Start::Fresh, seed, t.pick(4, 5));
            }
            explore(ctx, &mut rep, "C04", "C04 alphabet F (chunk end, rejected backfills)", alphabet_f(), Start::Fresh, vec![], t.pick(6, 7));
            explore_cycles(ctx, &mut rep, "C04", "C04 cycles, alphabet B", alphabet_b(), Start::Fresh, vec![], t.pick(3, 4), t.pick(16, 40));
            explore_cycles(ctx, &mut rep, "C04", "C04 cycles, alphabet F", alphabet_f(), Start::Fresh, vec![], t.pick(3, 4), t.pick(16, 40));
        }
        "C05" => {
            explore(ctx, &mut rep, "C05", "C05 alphabet C", alphabet_c(false), Start::Fresh, vec![], t.pick(5, 6));
            explore(ctx, &mut rep, "C05", "C05 alphabet C (full)", alphabet_c(true), Start::Fresh, vec![], t.pick(4, 5));
            explore(ctx, &mut rep, "C05", "C05 alphabet E (anchored memory)", alphabet_e(), Start::Fresh, vec![], t.pick(7, 8));
            explore(ctx, &mut rep, "C05", "C05 alphabet E extended (short anchored slices, extend, anchor first)", alphabet_e_ext(), Start::Fresh, vec![], t.pick(5, 6));
            explore_mode(ctx, &mut rep, "C05", "C05 alphabet C across threads", alphabet_c(false), Start::Fresh, vec![], t.pick(3, 4), true);
            explore_mode(ctx, &mut rep, "C05", "C05 alphabet E extended across threads", alphabet_e_ext(), Start::Fresh, vec![], t.pick(4, 5), true);
            for (name, seed) in seeds() {
                explore(ctx, &mut rep, "C05", &format!("C05 alphabet C after seed {}", name), alphabet_c(false), Start::Fresh, seed, t.pick(4, 5));
            }
            explore_cycles(ctx, &mut rep, "C05", "C05 cycles, alphabet C", alphabet_c(false), Start::Fresh, vec![], t.pick(3, 3), t.pick(16, 40));
            explore_cycles(ctx, &mut rep, "C05", "C05 cycles, alphabet E extended", alphabet_e_ext(), Start::Fresh, vec![], t.pick(3, 4), t.pick(16, 40));
            let marathon = vec![a(K::PushAnchored(70)), a(K::PushCopy(3)), a(K::Consume(1)), a(K::Advance(66)), a(K::FlushCache), a(K::HoldRead(70)), a(K::HeldPush)];
            explore_cycles_sparse(ctx, &mut rep, "C05", "C05 marathons (70 000 repetitions)", marathon, Start::Fresh, vec![], 2, 70_000, 17_500);
        }
        "C10" => {
            explore(ctx, &mut rep, "C10", "C10 leak clause, alphabet C", alphabet_c(false), Start::Fresh, vec![], t.pick(4, 6));
            explore(ctx, &mut rep, "C10", "C10 leak clause, alphabet C", alphabet_c(false), Start::FromSlices, vec![], t.pick(3, 5));
            explore(ctx, &mut rep, "C10", "C10 leak clause, alphabet E (anchored memory)", alphabet_e(), Start::Fresh, vec![], t.pick(6, 7));
            explore_mode(ctx, &mut rep, "C10", "C10 leak clause, alphabet C across threads", alphabet_c(false), Start::Fresh, vec![], t.pick(3, 4), true);
            for (name, seed) in seeds() {
                explore(ctx, &mut rep, "C10", &format!("C10 leak clause after seed {}", name), alphabet_c(false), Start::Fresh, seed, t.pick(3, 5));
            }
            explore_cycles(ctx, &mut rep, "C10", "C10 leak clause, cycles, alphabet C", alphabet_c(false), Start::Fresh, vec![], t.pick(3, 3), t.pick(16, 40));
            explore_cycles(ctx, &mut rep, "C10", "C10 leak clause, cycles, alphabet E extended", alphabet_e_ext(), Start::Fresh, vec![], t.pick(3, 4), t.pick(16, 40));
        }
        "C20" => {
            explore_c20(ctx, &mut rep, t.pick(3, 3), t.pick(3, 5));
            explore_cycles(ctx, &mut rep, "C20", "C20 cycles after push_copy(3), clone", alphabet_d_suffix(), Start::Fresh, vec![a(K::PushCopy(3)), a(K::CloneA)], t.pick(3, 3), t.pick(16, 40));
            explore_cycles(ctx, &mut rep, "C20", "C20 cycles after push_anchored(300), push(65), clone", alphabet_d_suffix(), Start::Fresh, vec![a(K::PushAnchored(300)), a(K::Push(65)), a(K::CloneA)], t.pick(3, 3), t.pick(16, 40));
        }
        other => machinery_failure(&format!("iovec_mc does not serve {}", other)),
    }
    rep
}

fn select_oracles(prop: &str) {
    match prop {
        "C05" => set_oracles(&[Oracle::Liveness]),
        "C10" => set_oracles(&[Oracle::Leak]),
        "C20" => set_oracles(&[Oracle::Content, Oracle::Liveness]),
        _ => set_oracles(&[Oracle::Content]),
    }
}

fn replay(ctx: &Ctx, text: &str) -> Result<String, String> {
    owning_iovec::verif::set_quarantine(true);
    select_oracles(&ctx.prop);
    let start = field(text, "start").and_then(Start::parse).unwrap_or(Start::Fresh);
    let Some(path) = field(text, "history").and_then(parse_path) else {
        machinery_failure("cannot parse history");
    };
    let r = if field(text, "threads") == Some("alternate") { run_history_threaded(start, &path) } else { run_history(start, &path, true) };
    match r {
        Err(e) if !relevant(&e) => Err(format!("[{}] only a sibling property's oracle fails: {}", render(&path), e)),
        Err(e) => Ok(format!("[{}] {}", render(&path), e)),
        Ok(()) => Err(format!("[{}] agrees with the reference pipe, nothing dangling, nothing leaked", render(&path))),
    }
}

fn rule(ctx: &Ctx) -> String {
    let common = "every operation history (each prefix is itself a history) over the alphabet and depth given in notes is executed from scratch on the real OwningIovec next to a Vec<Cell> reference model; after the last step of every history every read-side view (stable_prefix, front, iovs, flatten, flatten_into, IntoIterator, StableIovec), total_size/len/is_empty and every consuming return value is compared with the model, every exposed slice must lie in a live arena chunk (registry + quarantine hook) or a caller buffer, then all placeholders are backfilled, everything is drained and dropped and the process-wide live chunk/byte counters must be back to their initial values. states = distinct reference-model shapes (byte/hole pattern, consumed count, pending count); non-trivial = histories that consumed something, registered a placeholder or had two live iovecs.";
    format!("{} [{}]", common, ctx.prop)
}

fn main() {
    // no history of this engine needs more than a few hundred MiB; a runaway one must die alone
    limit_address_space(768 << 20);
    // an execution that does not end within two minutes is an unbounded loop in the code under test
    start_watchdog(120);
    main_entry(Engine {
        name: "iovec_mc",
        level: |_| "model_checking",
        rule,
        run,
        replay,
        assumptions: |_| {
            vec![
                "payload values are opaque to the iovec (only lengths and addresses drive control flow)".into(),
                "liveness is judged by the feature-gated chunk registry with quarantine (hook H1); compiler-level provenance is not modelled".into(),
                "caller buffers are static, so borrowed slices can never dangle in the harness".into(),
            ]
        },
        decode_breadcrumb: Some(|ctx, bytes| {
            let text = String::from_utf8_lossy(bytes).to_string();
            if text.trim().is_empty() {
                return None;
            }
            Some((format!("{}:abort:{}", ctx.prop, text.trim().replace(['\n', ' '], ";")), text))
        }),
    });
}
