//! C13, sequential clause: every history of update / try_update / snapshot / sequence calls on one
//! AtomicBaseTime, including updates whose voucher does not match (they panic inside the writer
//! lock and poison it), executed on the real code and compared with a three-line reference model:
//! the current pair is the newest accepted one, an older base time is ignored, a snapshot returns
//! the current pair whole.  The concurrent clauses are abt_loom's.
use mc_core::*;
use vouched_time::AtomicBaseTime;

const VOUCH: raffle::VouchingParameters = raffle::VouchingParameters::parse_or_die("VOUCH-773ec2a0e62c20cd-f9e079b78e895091-fc1da7b1b77c57cb-594b9cce3091464a");
const CHECK: raffle::CheckingParameters = raffle::CheckingParameters::parse_or_die("CHECK-fc1da7b1b77c57cb-594b9cce3091464a");

#[derive(Clone, Copy, Debug, PartialEq, Eq)]
pub enum Op {
    Update(u64),
    TryUpdate(u64),
    /// update((b, voucher for b + 1)): the pair is not a unit; the writer panics if it gets as far as storing it
    BadUpdate(u64),
    BadTryUpdate(u64),
    Snapshot,
    Sequence,
}

/// small base times, and two at the top of the range (more than 2^63 ms from the small ones: a
/// comparison done on a wrapped or signed difference gets them wrong)
pub const VALUES: [u64; 6] = [100, 300, 500, 1000, 1 << 63, u64::MAX];

pub fn alphabet() -> Vec<Op> {
    let mut v = Vec::new();
    for x in VALUES {
        v.push(Op::Update(x));
    }
    for x in VALUES {
        v.push(Op::TryUpdate(x));
    }
    for x in [300u64, 1000] {
        v.push(Op::BadUpdate(x));
        v.push(Op::BadTryUpdate(x));
    }
    v.push(Op::Snapshot);
    v.push(Op::Sequence);
    v
}

pub fn render(h: &[Op]) -> String {
    h.iter()
        .map(|o| match o {
            Op::Update(v) => format!("update({})", v),
            Op::TryUpdate(v) => format!("try_update({})", v),
            Op::BadUpdate(v) => format!("update({} with the voucher of {})", v, v + 1),
            Op::BadTryUpdate(v) => format!("try_update({} with the voucher of {})", v, v + 1),
            Op::Snapshot => "snapshot".to_string(),
            Op::Sequence => "sequence".to_string(),
        })
        .collect::<Vec<_>>()
        .join("; ")
}

pub fn parse(text: &str) -> Option<Vec<Op>> {
    let mut out = Vec::new();
    for tok in text.split(';').map(|t| t.trim()).filter(|t| !t.is_empty()) {
        let num = |s: &str| -> Option<u64> { s.chars().skip_while(|c| !c.is_ascii_digit()).take_while(|c| c.is_ascii_digit()).collect::<String>().parse().ok() };
        let bad = tok.contains("with the voucher of");
        out.push(if tok == "snapshot" {
            Op::Snapshot
        } else if tok == "sequence" {
            Op::Sequence
        } else if tok.starts_with("try_update") {
            if bad { Op::BadTryUpdate(num(tok)?) } else { Op::TryUpdate(num(tok)?) }
        } else if tok.starts_with("update") {
            if bad { Op::BadUpdate(num(tok)?) } else { Op::Update(num(tok)?) }
        } else {
            return None;
        });
    }
    Some(out)
}

/// Reference model.
#[derive(Default, Clone)]
struct Model {
    cur: u64,
    accepted: u64,
    poisoned: bool,
}

/// One AtomicBaseTime next to its reference model.
struct Inst {
    abt: AtomicBaseTime,
    m: Model,
}

impl Inst {
    fn new() -> Inst {
        Inst { abt: AtomicBaseTime::new(), m: Model::default() }
    }

    fn step(&mut self, i: usize, op: &Op) -> Result<(), String> {
        let abt = &self.abt;
        let m = &mut self.m;
        let at = |msg: String| format!("step {} ({}): {}", i + 1, render(&[*op]), msg);
        match *op {
            Op::Update(v) => {
                catch(|| abt.update((v, VOUCH.vouch(v)))).map_err(|p| at(format!("a valid update panicked: {}", p)))?;
                m.poisoned = false;
                if v >= m.cur {
                    m.cur = v;
                    m.accepted += 1;
                }
            }
            Op::TryUpdate(v) => {
                let got = catch(|| abt.try_update((v, VOUCH.vouch(v)))).map_err(|p| at(format!("a valid try_update panicked: {}", p)))?;
                // a poisoned lock makes this one call give up (and clears the poison); nobody holds the lock in a sequential history otherwise
                let want = !m.poisoned && v >= m.cur;
                m.poisoned = false;
                if want {
                    m.cur = v;
                    m.accepted += 1;
                }
                if got != want {
                    return Err(at(format!("returned {} expected {} (current base time {})", got, want, m.cur)));
                }
            }
            Op::BadUpdate(v) | Op::BadTryUpdate(v) => {
                let blocking = matches!(op, Op::BadUpdate(_));
                let r = catch(|| if blocking {
                    abt.update((v, VOUCH.vouch(v + 1)));
                    false
                } else {
                    abt.try_update((v, VOUCH.vouch(v + 1)))
                });
                // an older base time is ignored before the pair is looked at; a poisoned try_update gives up first
                let reaches_store = v >= m.cur && (blocking || !m.poisoned);
                match (r, reaches_store) {
                    (Err(_), true) => {
                        m.poisoned = true; // panicked while holding the writer lock
                    }
                    (Ok(ret), false) => {
                        if ret {
                            return Err(at("a pair that is not a unit was reported as accepted".to_string()));
                        }
                        m.poisoned = false;
                    }
                    (Ok(_), true) => return Err(at("a (base time, voucher) pair that is not a unit was accepted".to_string())),
                    (Err(p), false) => return Err(at(format!("panicked although the update is older than the current base time or never got the lock: {}", p))),
                }
            }
            Op::Snapshot => {
                let (t, v) = catch(|| abt.snapshot()).map_err(|p| at(format!("snapshot panicked: {}", p)))?;
                if !CHECK.check(t, v) {
                    return Err(at(format!("returned a torn pair (base time {})", t)));
                }
                if t != m.cur {
                    return Err(at(format!("returned base time {} although the newest accepted update is {}", t, m.cur)));
                }
            }
            Op::Sequence => {
                let s = catch(|| abt.sequence()).map_err(|p| at(format!("sequence panicked: {}", p)))?;
                if s != m.accepted {
                    return Err(at(format!("sequence() = {} after {} accepted updates", s, m.accepted)));
                }
            }
        }
        Ok(())
    }

    /// the value is the newest accepted one
    fn final_check(&self, when: &str) -> Result<(), String> {
        let (t, v) = catch(|| self.abt.snapshot()).map_err(|p| format!("{}: snapshot panicked: {}", when, p))?;
        if t != self.m.cur || !CHECK.check(t, v) {
            return Err(format!("{}: snapshot returns base time {} expected {}", when, t, self.m.cur));
        }
        Ok(())
    }
}

/// Executes the history on a fresh AtomicBaseTime; Err = first disagreement with the model.
pub fn run_history(h: &[Op]) -> Result<(), String> {
    let mut inst = Inst::new();
    for (i, op) in h.iter().enumerate() {
        inst.step(i, op)?;
    }
    inst.final_check("after the history")
}

/// Two instances alive at once and used alternately by one thread: A runs `h`, B runs `h` rotated by
/// one op; after every step of one the OTHER is snapshotted and must still hold its own newest pair
/// (state kept outside the object - a static, a thread-local memo - shows here and nowhere else).
pub fn run_twin(h: &[Op]) -> Result<(), String> {
    let mut a = Inst::new();
    let mut b = Inst::new();
    let n = h.len();
    for i in 0..n {
        a.step(i, &h[i]).map_err(|e| format!("instance A {}", e))?;
        b.final_check(&format!("instance B after A's step {} ({})", i + 1, render(&[h[i]])))?;
        let ob = &h[(i + 1) % n];
        b.step(i, ob).map_err(|e| format!("instance B {}", e))?;
        a.final_check(&format!("instance A after B's step {} ({})", i + 1, render(&[*ob])))?;
    }
    Ok(())
}

thread_local! {
    /// the history this worker executed just before the current one (on the same thread, its
    /// instances dead by now): state kept outside the objects can leak from it into the next one
    static PREVIOUS: std::cell::RefCell<Option<(Vec<Op>, bool)>> = const { std::cell::RefCell::new(None) };
}

fn remember(h: &[Op], twin: bool) {
    PREVIOUS.with(|p| *p.borrow_mut() = Some((h.to_vec(), twin)));
}

fn report(rep: &mut Report, h: &[Op], twin: bool, e: String, previous: Option<(Vec<Op>, bool)>) {
    let again = if twin { run_twin(h) } else { run_history(h) };
    let r = render(h);
    let head = if twin { "sequential-twin" } else { "sequential" };
    let mut preceded = String::new();
    if again.is_ok() {
        // process-global or per-thread state in the code under test may make a second run take
        // another path: first the history on its own in a fresh process, then the history preceded
        // by the one this worker ran just before it (whose instances are dead, but whose traces in a
        // static or thread-local may not be)
        let text = format!("{}: {}\nobserved: {}\n", head, r, e);
        if !reproduces_in_fresh_process("C13", &text) {
            let Some((prev, prev_twin)) = previous else {
                machinery_failure("C13 sequential violation did not reproduce");
            };
            preceded = format!("preceded-by{}: {}\n", if prev_twin { "-twin" } else { "" }, render(&prev));
            let text = format!("{}: {}\n{}observed: {}\n", head, r, preceded, e);
            if !reproduces_in_fresh_process("C13", &text) {
                machinery_failure("C13 sequential violation did not reproduce (alone, in a fresh process, or after the preceding history)");
            }
        }
    }
    let after = if preceded.is_empty() { String::new() } else { format!(" (run on the thread that had just finished [{}] on instances that no longer exist)", preceded.trim().splitn(2, ": ").nth(1).unwrap_or("")) };
    if twin {
        rep.violation(Violation { key: format!("C13:seq-twin:{}", r.replace(' ', "")), summary: format!("two AtomicBaseTime instances used alternately by one thread, A runs [{}], B the same rotated by one{}: {}", r, after, e), replay_text: format!("sequential-twin: {}\n{}observed: {}\n", r, preceded, e) });
    } else {
        rep.violation(Violation { key: format!("C13:seq:{}", r.replace(' ', "")), summary: format!("AtomicBaseTime, one thread [{}]{}: {}", r, after, e), replay_text: format!("sequential: {}\n{}observed: {}\n", r, preceded, e) });
    }
}

pub fn run(ctx: &Ctx) -> Report {
    let mut rep = Report::new();
    let ops = alphabet();
    let n = ops.len();
    let depth = ctx.tier.pick(5usize, 7);
    let mut unit = 0usize;
    for len in 0..=depth {
        let total = n.pow(len as u32);
        let block = if len >= 2 { n.pow((len - 2) as u32) } else { total };
        let mut idx = 0usize;
        while idx < total {
            let u = unit + idx / block;
            if ctx.owns(u) {
                for j in idx..idx + block {
                    let mut x = j;
                    let mut h = vec![Op::Snapshot; len];
                    for d in (0..len).rev() {
                        h[d] = ops[x % n];
                        x /= n;
                    }
                    rep.evaluations += 1;
                    rep.transitions += len as u64;
                    if h.iter().any(|o| matches!(o, Op::BadUpdate(_) | Op::BadTryUpdate(_))) {
                        rep.nontrivial += 1;
                    }
                    if len >= 2 && len < depth {
                        rep.evaluations += 1;
                        rep.transitions += 2 * len as u64;
                        let prev = PREVIOUS.with(|p| p.borrow().clone());
                        let r = run_twin(&h);
                        remember(&h, true);
                        if let Err(e) = r {
                            report(&mut rep, &h, true, e, prev);
                        }
                    }
                    let prev = PREVIOUS.with(|p| p.borrow().clone());
                    let result = run_history(&h);
                    remember(&h, false);
                    match result {
                        Ok(()) => {
                            if len == depth {
                                rep.outcome(hash_of(&h.iter().filter(|o| matches!(o, Op::Update(_) | Op::TryUpdate(_))).count()));
                            }
                        }
                        Err(e) => {
                            // report at the shortest failing prefix only
                            if !e.starts_with(&format!("step {} ", len)) && !e.starts_with("after the history") {
                                continue;
                            }
                            report(&mut rep, &h, false, e, prev);
                        }
                    }
                }
            }
            idx += block;
        }
        unit += if len >= 2 { n * n } else { 1 };
    }
    // periodic unrollings: every cycle of 1..=3 ops repeated 40 times (sequence numbers up to 120, both
    // slots reused many times), on one instance and on two instances used alternately
    let reps = ctx.tier.pick(40usize, 100);
    let mut cycles = 0u64;
    for len in 1..=3usize {
        for c in 0..n.pow(len as u32) {
            unit += 1;
            if !ctx.owns(unit) {
                continue;
            }
            let mut x = c;
            let mut cycle = Vec::with_capacity(len);
            for _ in 0..len {
                cycle.push(ops[x % n]);
                x /= n;
            }
            let h: Vec<Op> = (0..len * reps).map(|i| cycle[i % len]).collect();
            cycles += 1;
            rep.evaluations += 2;
            rep.transitions += 3 * h.len() as u64;
            let prev = PREVIOUS.with(|p| p.borrow().clone());
            let first = run_history(&h);
            remember(&h, false);
            if let Err(e) = first {
                let at = e.strip_prefix("step ").and_then(|r| r.split(' ').next()).and_then(|k| k.parse::<usize>().ok()).unwrap_or(h.len());
                let cut = h[..at.min(h.len())].to_vec();
                report(&mut rep, &cut, false, e, prev);
            }
            if len >= 2 {
                let prev = PREVIOUS.with(|p| p.borrow().clone());
                let r = run_twin(&h);
                remember(&h, true);
                if let Err(e) = r {
                    report(&mut rep, &h, true, e, prev);
                }
            }
        }
    }
    rep.count("cycles_unrolled", cycles);
    rep.note(format!("sequential clause, periodic unrollings: every cycle of 1..=3 ops repeated {} times on one instance, and (cycles of 2 and 3 ops) on two instances used alternately by one thread, each against its own model; every history of 2..{} ops also runs in the two-instance form", reps, depth - 1));
    rep.max_depth = depth as u64;
    rep.note(format!("sequential clause: all histories up to length {} over {} ops (update / try_update of {:?}, update / try_update of 300 and 1000 with a voucher that does not match (the writer panics inside the lock and poisons it), snapshot, sequence) on the real AtomicBaseTime against a reference model (newest accepted pair; older ignored; a poisoned lock costs the next try_update its turn)", depth, n, VALUES));
    rep
}

pub fn replay(text: &str) -> Result<String, String> {
    // the history that ran just before on the same thread (its instances are gone; what it left in a
    // static or a thread-local is not)
    if let Some(p) = field(text, "preceded-by").and_then(parse) {
        let _ = run_history(&p);
    }
    if let Some(p) = field(text, "preceded-by-twin").and_then(parse) {
        let _ = run_twin(&p);
    }
    if let Some(h) = field(text, "sequential-twin").and_then(parse) {
        return match run_twin(&h) {
            Err(e) => Ok(e),
            Ok(()) => Err("both instances agree with their reference models".to_string()),
        };
    }
    let Some(h) = field(text, "sequential").and_then(parse) else {
        machinery_failure("cannot parse sequential history");
    };
    match run_history(&h) {
        Err(e) => Ok(e),
        Ok(()) => Err("agrees with the reference model".to_string()),
    }
}
