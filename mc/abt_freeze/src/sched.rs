//! A step-controlled scheduler for real OS threads running the real
//! AtomicBaseTime code: every stand-in operation (hook H3 observer) is a step
//! point at which the controller can hold a thread for as long as it wants.
use std::collections::HashMap;
use std::sync::Arc;
use std::sync::Condvar;
use std::sync::Mutex;
use std::thread::ThreadId;
use vouched_time::verif_sync::Event;
use vouched_time::verif_sync::Op;

#[derive(Default)]
pub struct ThreadState {
    pub allowed: usize,
    pub taken: usize,
    pub waiting: bool,
    pub done: bool,
    pub parked: bool,
    pub unpark: bool,
    pub events: Vec<Op>,
    /// kernel thread id of the role's thread (for /proc/self/task/<tid>/stat)
    pub tid: Option<u64>,
}

/// (state letter, utime + stime in clock ticks) of a thread of this process.
fn thread_stat(tid: u64) -> Option<(char, u64)> {
    let text = std::fs::read_to_string(format!("/proc/self/task/{}/stat", tid)).ok()?;
    // pid (comm) state ppid ... utime(14) stime(15): comm may contain spaces, so split after the last ')'
    let rest = &text[text.rfind(')')? + 1..];
    let fields: Vec<&str> = rest.split_whitespace().collect();
    let state = fields.first()?.chars().next()?;
    let utime: u64 = fields.get(11)?.parse().ok()?;
    let stime: u64 = fields.get(12)?.parse().ok()?;
    Some((state, utime + stime))
}

#[derive(Default)]
pub struct Shared {
    pub threads: HashMap<ThreadId, usize>, // thread id -> role index
    pub roles: Vec<ThreadState>,
    /// role currently holding the stand-in mutex (inferred from Locked / TryLocked(true) / Unlock)
    pub holder: Option<usize>,
}

pub struct Controller {
    pub shared: Mutex<Shared>,
    pub cv: Condvar,
}

pub const UNLIMITED: usize = usize::MAX / 2;

impl Controller {
    pub fn new(roles: usize) -> Arc<Controller> {
        let mut shared = Shared::default();
        for _ in 0..roles {
            shared.roles.push(ThreadState::default());
        }
        Arc::new(Controller { shared: Mutex::new(shared), cv: Condvar::new() })
    }

    /// Installs the process-wide observer that routes events of registered threads here.
    pub fn install(self: &Arc<Self>) {
        let me = self.clone();
        vouched_time::verif_sync::set_observer(Some(Arc::new(move |ev: &Event| me.on_event(ev))));
    }

    pub fn uninstall() {
        vouched_time::verif_sync::set_observer(None);
    }

    /// Called by a role's thread before it starts its operation.
    pub fn register(&self, role: usize) {
        let tid = std::fs::read_link("/proc/thread-self").ok().and_then(|p| p.file_name().and_then(|n| n.to_str().and_then(|t| t.parse::<u64>().ok())));
        let mut sh = self.shared.lock().unwrap();
        sh.threads.insert(std::thread::current().id(), role);
        sh.roles[role].tid = tid;
    }

    /// Called by a role's thread when its operation returned (or panicked).
    pub fn finish(&self, role: usize) {
        let mut sh = self.shared.lock().unwrap();
        sh.roles[role].done = true;
        if sh.holder == Some(role) {
            // a panicking holder releases the (poisoned) mutex without an Unlock event
            sh.holder = None;
        }
        self.cv.notify_all();
    }

    fn on_event(&self, ev: &Event) {
        let id = std::thread::current().id();
        let mut sh = self.shared.lock().unwrap();
        let Some(role) = sh.threads.get(&id).copied() else {
            return;
        };
        // Completion events (Locked, TryLocked) are bookkeeping, not step points: a thread that was
        // allowed to start lock()/try_lock() cannot be held between the call and its return.
        let is_step = !matches!(ev.op, Op::Locked | Op::TryLocked(_));
        if is_step {
            while sh.roles[role].taken >= sh.roles[role].allowed {
                sh.roles[role].waiting = true;
                self.cv.notify_all();
                sh = self.cv.wait(sh).unwrap();
            }
            sh.roles[role].waiting = false;
            sh.roles[role].taken += 1;
        }
        sh.roles[role].events.push(ev.op);
        if ev.op == Op::Lock {
            // Virtual parking: a thread that calls lock() while another role holds the mutex is held
            // HERE (not inside std's lock()), so that who acquires next is decided by the controller
            // and never by an OS race.  A parked thread stays parked until the teardown releases it.
            if sh.holder.is_some() && sh.holder != Some(role) {
                sh.roles[role].parked = true;
                self.cv.notify_all();
                while !sh.roles[role].unpark {
                    sh = self.cv.wait(sh).unwrap();
                }
                sh.roles[role].parked = false;
            }
        }
        match ev.op {
            Op::Locked | Op::TryLocked(true) => sh.holder = Some(role),
            Op::Unlock => {
                if sh.holder == Some(role) {
                    sh.holder = None;
                }
            }
            _ => {}
        }
        self.cv.notify_all();
    }

    /// Lets `role` take `steps` more steps.
    pub fn grant(&self, role: usize, steps: usize) {
        let mut sh = self.shared.lock().unwrap();
        sh.roles[role].allowed = sh.roles[role].allowed.saturating_add(steps).min(UNLIMITED);
        self.cv.notify_all();
    }

    /// Is `role` inside a blocking lock() whose mutex another role holds?
    fn parked_in_lock(sh: &Shared, role: usize) -> bool {
        sh.roles[role].parked
    }

    /// Teardown: lets every role run to completion (parked ones enter lock() for real).
    pub fn release_all(&self) {
        let mut sh = self.shared.lock().unwrap();
        for r in sh.roles.iter_mut() {
            r.allowed = UNLIMITED;
            r.unpark = true;
        }
        self.cv.notify_all();
    }

    /// Waits until `role` is done, waiting for a grant, or parked inside lock() behind another
    /// role.  Returns a description of where it stopped.  `step_cap` bounds its total steps.
    pub fn settle(&self, role: usize, step_cap: usize) -> Stop {
        self.settle_within(role, step_cap, std::time::Duration::from_secs(20))
    }

    /// Like `settle`, with an explicit wall-clock deadline (for roles that may block inside a lock
    /// the step hook does not see).
    pub fn settle_within(&self, role: usize, step_cap: usize, limit: std::time::Duration) -> Stop {
        let mut sh = self.shared.lock().unwrap();
        let deadline = std::time::Instant::now() + limit;
        // consecutive 50 ms samples in which the thread was asleep in the kernel without being held by
        // the step hook and without consuming any CPU time
        let mut asleep: Option<std::time::Instant> = None;
        let mut last_cpu: Option<u64> = None;
        let mut last_taken = usize::MAX;
        loop {
            if sh.roles[role].done {
                return Stop::Done;
            }
            if sh.roles[role].taken > step_cap {
                return Stop::StepCap;
            }
            if Self::parked_in_lock(&sh, role) {
                return Stop::ParkedInLock;
            }
            if sh.roles[role].waiting && sh.roles[role].taken >= sh.roles[role].allowed {
                return Stop::WaitingForGrant;
            }
            // A thread that is neither held by the hook nor running, but asleep in the kernel with no
            // CPU time consumed for a second, is blocked on something the hook does not see (a lock or
            // a wait that is not the instrumented writer mutex).  A thread that is merely starved of
            // CPU is runnable (state R), never asleep.
            if !sh.roles[role].waiting && !sh.roles[role].parked {
                let stat = sh.roles[role].tid.and_then(thread_stat);
                match stat {
                    Some((state, cpu)) if (state == 'S' || state == 'D') && last_cpu == Some(cpu) && last_taken == sh.roles[role].taken => {
                        asleep.get_or_insert_with(std::time::Instant::now);
                    }
                    Some((_, cpu)) => {
                        asleep = None;
                        last_cpu = Some(cpu);
                        last_taken = sh.roles[role].taken;
                    }
                    None => asleep = None,
                }
                if asleep.is_some_and(|t| t.elapsed() >= std::time::Duration::from_millis(1000)) {
                    return Stop::BlockedInKernel;
                }
            } else {
                asleep = None;
            }
            let now = std::time::Instant::now();
            if now >= deadline {
                return Stop::Timeout;
            }
            let (guard, _) = self.cv.wait_timeout(sh, std::time::Duration::from_millis(50)).unwrap();
            sh = guard;
        }
    }

    pub fn events(&self, role: usize) -> Vec<Op> {
        self.shared.lock().unwrap().roles[role].events.clone()
    }

    pub fn holder(&self) -> Option<usize> {
        self.shared.lock().unwrap().holder
    }

    pub fn taken(&self, role: usize) -> usize {
        self.shared.lock().unwrap().roles[role].taken
    }
}

#[derive(Clone, Copy, Debug, PartialEq, Eq)]
pub enum Stop {
    Done,
    WaitingForGrant,
    ParkedInLock,
    StepCap,
    Timeout,
    /// asleep in the kernel for a second, not held by the step hook: blocked on an un-instrumented primitive
    BlockedInKernel,
}
