//! abt_freeze: C18 — AtomicBaseTime readers and try_update never wait for a writer.
//!
//! Every suspension point of one or two writers (before, between and after each
//! of their stand-in steps, with and without the writer lock held), optionally
//! after the observer itself was paused mid-operation and another writer
//! completed a whole update, then the observer run ALONE to completion.  The code
//! under test is the real vouched_time crate built with hook H3 (observable
//! stand-ins that pass through to std).
mod sched;
mod seq;

use mc_core::*;
use sched::*;
use std::sync::Arc;
use vouched_time::verif_sync::Op;
use vouched_time::AtomicBaseTime;

const VOUCH: raffle::VouchingParameters = raffle::VouchingParameters::parse_or_die("VOUCH-773ec2a0e62c20cd-f9e079b78e895091-fc1da7b1b77c57cb-594b9cce3091464a");
const CHECK: raffle::CheckingParameters = raffle::CheckingParameters::parse_or_die("CHECK-fc1da7b1b77c57cb-594b9cce3091464a");

/// Added to every base time of the running scenario (0, or a value that puts all of them in the last
/// two million milliseconds of the u64 range: times far beyond year 9999).
static OFFSET: std::sync::atomic::AtomicU64 = std::sync::atomic::AtomicU64::new(0);
const HIGH_OFFSET: u64 = u64::MAX - 2_000_000;

fn pair(t: u64) -> (u64, raffle::Voucher) {
    let t = t + OFFSET.load(std::sync::atomic::Ordering::Relaxed);
    (t, VOUCH.vouch(t))
}

#[derive(Clone, Copy, Debug, PartialEq, Eq)]
enum WriterOp {
    UpdateNewer,
    UpdateOlder,
    TryUpdateNewer,
}
const WRITER_OPS: [WriterOp; 3] = [WriterOp::UpdateNewer, WriterOp::UpdateOlder, WriterOp::TryUpdateNewer];

#[derive(Clone, Copy, Debug, PartialEq, Eq)]
enum ObserverOp {
    Snapshot,
    SnapshotTwice,
    TryUpdateNewer,
    /// a base time far ahead (+1 000 000 ms) of the committed one
    TryUpdateFarAhead,
    TryUpdateOlder,
    Sequence,
    /// four try_update calls in a row (state that drifts from one contended call to the next)
    TryUpdateFourTimes,
    /// 300 snapshots / 300 try_update calls in a row on one thread (the N-th call of a thread:
    /// periodic self-checks, counters, thresholds), only with one suspended writer and no pause
    SnapshotMany,
    TryUpdateMany,
}
const MANY: usize = 300;
const LONG_OBSERVER_OPS: [ObserverOp; 2] = [ObserverOp::SnapshotMany, ObserverOp::TryUpdateMany];
const OBSERVER_OPS: [ObserverOp; 7] = [ObserverOp::Snapshot, ObserverOp::SnapshotTwice, ObserverOp::TryUpdateNewer, ObserverOp::TryUpdateFarAhead, ObserverOp::TryUpdateOlder, ObserverOp::Sequence, ObserverOp::TryUpdateFourTimes];
const FAR: u64 = 1_000_000;

#[derive(Clone, Debug, PartialEq, Eq)]
struct Scenario {
    /// number of accepted updates before the scenario (1 or 2: which slot is the stable one)
    start_seq: u8,
    /// a writer panicked while holding the lock before the scenario (mutex poisoned)
    poisoned: bool,
    observer: ObserverOp,
    /// steps the observer takes before it is paused (0 = not started yet)
    observer_pause: usize,
    /// a writer that runs a complete update while the observer is paused
    completed_writer: bool,
    /// frozen writers: (operation, steps before freezing)
    frozen: Vec<(WriterOp, usize)>,
    /// all base times of the scenario lie at the top of the u64 range
    high: bool,
    /// before its operation the observer thread reads ANOTHER AtomicBaseTime (its own, holding a much
    /// later base time): what a thread saw in one instance must not make it wait on another
    warm: bool,
}

impl Scenario {
    fn render(&self) -> String {
        format!(
            "start_seq={} poisoned={} high={} warm={} observer={:?} observer_pause={} completed_writer={} frozen={}",
            self.start_seq,
            self.poisoned,
            self.high,
            self.warm,
            self.observer,
            self.observer_pause,
            self.completed_writer,
            if self.frozen.is_empty() { "-".to_string() } else { self.frozen.iter().map(|(o, k)| format!("{:?}@{}", o, k)).collect::<Vec<_>>().join(",") }
        )
    }
    fn parse(text: &str) -> Option<Scenario> {
        let get = |name: &str| -> Option<&str> {
            let start = text.find(&format!("{}=", name))? + name.len() + 1;
            let rest = &text[start..];
            Some(&rest[..rest.find(' ').unwrap_or(rest.len())])
        };
        let mut frozen = Vec::new();
        let f = get("frozen")?;
        if f != "-" {
            for tok in f.split(',') {
                let (o, k) = tok.split_once('@')?;
                frozen.push((WRITER_OPS.iter().copied().find(|w| format!("{:?}", w) == o)?, k.parse().ok()?));
            }
        }
        Some(Scenario {
            start_seq: get("start_seq")?.parse().ok()?,
            poisoned: get("poisoned")? == "true",
            high: get("high") == Some("true"),
            warm: get("warm") == Some("true"),
            observer: OBSERVER_OPS.iter().chain(LONG_OBSERVER_OPS.iter()).copied().find(|o| format!("{:?}", o) == get("observer").unwrap_or(""))?,
            observer_pause: get("observer_pause")?.parse().ok()?,
            completed_writer: get("completed_writer")? == "true",
            frozen,
        })
    }
}

const ROLE_OBSERVER: usize = 0;
const ROLE_COMPLETED: usize = 1;
const ROLE_FROZEN0: usize = 2;
const STEP_CAP: usize = 64;

#[derive(Debug, Default)]
struct Outcome {
    observer_events: Vec<Op>,
    frozen_holding_lock: bool,
    observer_result: String,
}

/// Runs one scenario.  Err = violation description.
fn run_scenario(sc: &Scenario) -> Result<Outcome, String> {
    OFFSET.store(if sc.high { HIGH_OFFSET } else { 0 }, std::sync::atomic::Ordering::Relaxed);
    let abt = Arc::new(AtomicBaseTime::new());
    // --- start state (no controller installed yet: these run freely)
    // one or two accepted updates first, so that either slot can be the stable one and so that
    // "older" base times (1, 2) really are older than the current value (5)
    if sc.start_seq == 2 {
        abt.update(pair(3));
    }
    abt.update(pair(5));
    let current: u64 = 5;
    if sc.poisoned {
        let a = abt.clone();
        // a voucher that does not match: the crate's own assertion panics while the lock is held
        let bad = (pair(current + 1).0, pair(current + 2).1);
        let r = std::thread::spawn(move || a.update(bad)).join();
        if r.is_ok() {
            return Err("update with a mismatched voucher did not panic".into());
        }
    }
    let ctl = Controller::new(2 + sc.frozen.len().max(1));
    ctl.install();
    let result = run_controlled(sc, &abt, &ctl, current);
    // whatever happened: let everybody finish, then uninstall
    ctl.release_all();
    let result = match result {
        Ok((outcome, handles, expect_final)) => {
            let mut err = None;
            if join_or_abandon(handles) {
                err.get_or_insert("a thread panicked".to_string());
            }
            Controller::uninstall();
            // (What the released writers then do to the value is C13's business, not C18's: the
            // teardown is an uncontrolled race, so nothing is asserted about the final value.)
            let _ = expect_final;
            match err {
                Some(e) => Err(e),
                None => Ok(outcome),
            }
        }
        Err((e, handles)) => {
            let _ = join_or_abandon(handles);
            Controller::uninstall();
            Err(e)
        }
    };
    result
}

/// Joins the threads that finish within two seconds of the teardown; a thread that is still running
/// then (an observer that spins or blocks for good is exactly what a violation looks like) is left
/// behind: it belongs to no later scenario's controller and ends with the process.
fn join_or_abandon(handles: Handles) -> bool {
    let deadline = std::time::Instant::now() + std::time::Duration::from_secs(2);
    let mut spins = 0u32;
    while !handles.iter().all(|h| h.is_finished()) && std::time::Instant::now() < deadline {
        spins += 1;
        if spins < 200 {
            std::thread::yield_now();
        } else {
            std::thread::sleep(std::time::Duration::from_micros(200));
        }
    }
    let mut panicked = false;
    for h in handles {
        if h.is_finished() {
            panicked |= h.join().is_err();
        } else {
            std::mem::forget(h);
        }
    }
    panicked
}

type Handles = Vec<std::thread::JoinHandle<()>>;

fn spawn_role(ctl: &Arc<Controller>, role: usize, f: impl FnOnce() + Send + 'static) -> std::thread::JoinHandle<()> {
    spawn_role_after(ctl, role, || {}, f)
}

/// `prelude` runs on the new thread BEFORE it is registered with the controller (its stand-in
/// operations are not step points and are not recorded).
fn spawn_role_after(ctl: &Arc<Controller>, role: usize, prelude: impl FnOnce() + Send + 'static, f: impl FnOnce() + Send + 'static) -> std::thread::JoinHandle<()> {
    let ctl = ctl.clone();
    std::thread::spawn(move || {
        prelude();
        ctl.register(role);
        let r = std::panic::catch_unwind(std::panic::AssertUnwindSafe(f));
        ctl.finish(role);
        if let Err(p) = r {
            std::panic::resume_unwind(p);
        }
    })
}

fn run_controlled(sc: &Scenario, abt: &Arc<AtomicBaseTime>, ctl: &Arc<Controller>, start_value: u64) -> Result<(Outcome, Handles, u64), (String, Handles)> {
    let mut handles: Handles = Vec::new();
    let mut outcome = Outcome::default();
    let observer_result: Arc<std::sync::Mutex<Vec<(u64, bool, bool)>>> = Arc::new(std::sync::Mutex::new(Vec::new())); // (value, voucher ok, bool result)
    // values: start 0 or 5; completed writer writes 10; frozen writers 20, 30; observer try_update(newer) 40, older 1
    let mut accepted_max = start_value;

    // ---- phase 1: the observer starts and is paused after `observer_pause` steps
    {
        let abt = abt.clone();
        let res = observer_result.clone();
        let op = sc.observer;
        let warm = sc.warm;
        let prelude = move || {
            if warm {
                // the thread's own, unrelated cell, far ahead of everything in the scenario
                let other = AtomicBaseTime::new();
                other.update(pair(1_500_000));
                let _ = other.snapshot();
                other.update(pair(1_600_000));
                let _ = other.snapshot();
            }
        };
        handles.push(spawn_role_after(ctl, ROLE_OBSERVER, prelude, move || {
            let mut out = Vec::new();
            match op {
                ObserverOp::Snapshot => {
                    let (t, v) = abt.snapshot();
                    out.push((t, CHECK.check(t, v), true));
                }
                ObserverOp::SnapshotTwice => {
                    for _ in 0..2 {
                        let (t, v) = abt.snapshot();
                        out.push((t, CHECK.check(t, v), true));
                    }
                }
                ObserverOp::TryUpdateNewer => out.push((40, true, abt.try_update(pair(40)))),
                ObserverOp::TryUpdateFarAhead => out.push((FAR, true, abt.try_update(pair(FAR)))),
                ObserverOp::TryUpdateOlder => out.push((1, true, abt.try_update(pair(1)))),
                ObserverOp::Sequence => out.push((abt.sequence(), true, true)),
                ObserverOp::TryUpdateFourTimes => {
                    for i in 0..4u64 {
                        out.push((40 + i, true, abt.try_update(pair(40 + i))));
                    }
                }
                ObserverOp::SnapshotMany => {
                    for _ in 0..MANY {
                        let (t, v) = abt.snapshot();
                        out.push((t, CHECK.check(t, v), true));
                    }
                }
                ObserverOp::TryUpdateMany => {
                    for i in 0..MANY as u64 {
                        out.push((40 + i, true, abt.try_update(pair(40 + i))));
                    }
                }
            }
            *res.lock().unwrap() = out;
        }));
    }
    if sc.observer_pause > 0 {
        ctl.grant(ROLE_OBSERVER, sc.observer_pause);
    }
    let stop = ctl.settle(ROLE_OBSERVER, STEP_CAP);
    if stop == Stop::Timeout {
        return Err(("harness: observer did not settle in phase 1".into(), handles));
    }
    let observer_done_early = stop == Stop::Done;
    let observer_holds_lock = ctl.holder() == Some(ROLE_OBSERVER);

    // ---- phase 2: a writer completes a whole update (unless the observer holds the lock)
    let mut commits_during_observer = 0usize;
    if sc.completed_writer && !observer_holds_lock {
        let abt2 = abt.clone();
        handles.push(spawn_role(ctl, ROLE_COMPLETED, move || abt2.update(pair(10))));
        ctl.grant(ROLE_COMPLETED, UNLIMITED);
        let stop = ctl.settle(ROLE_COMPLETED, 1000);
        if stop != Stop::Done {
            return Err((format!("harness: the completing writer stopped at {:?}", stop), handles));
        }
        accepted_max = accepted_max.max(10);
        if sc.observer_pause > 0 && !observer_done_early {
            commits_during_observer = 1;
        }
    }

    // ---- phase 3: writers run to their freeze points
    for (i, (op, k)) in sc.frozen.iter().enumerate() {
        let role = ROLE_FROZEN0 + i;
        let abt2 = abt.clone();
        let value = 20 + 10 * i as u64;
        let op = *op;
        handles.push(spawn_role(ctl, role, move || match op {
            WriterOp::UpdateNewer => abt2.update(pair(value)),
            WriterOp::UpdateOlder => abt2.update(pair(2)),
            WriterOp::TryUpdateNewer => {
                let _ = abt2.try_update(pair(value));
            }
        }));
        ctl.grant(role, *k);
        let stop = ctl.settle(role, 1000);
        if stop == Stop::Timeout {
            return Err((format!("harness: frozen writer {} did not settle", i), handles));
        }
        if op == WriterOp::TryUpdateNewer && matches!(stop, Stop::ParkedInLock | Stop::BlockedInKernel) {
            return Err((format!("try_update (writer {}) WAITS ({}) although it must return false when it cannot have the lock at once", i, if stop == Stop::ParkedInLock { "inside a blocking lock() behind another holder of the writer lock" } else { "asleep in the kernel, blocked on something other than the instrumented writer lock" }), handles));
        }
    }
    let holder = ctl.holder();
    outcome.frozen_holding_lock = matches!(holder, Some(r) if r >= ROLE_FROZEN0);
    // A "suspended" writer that was given enough steps to perform its commit store (the third
    // store of an update) completed a write while the observer was mid-operation: that justifies
    // one retry of a snapshot in progress.
    if sc.observer_pause > 0 && !observer_done_early {
        for i in 0..sc.frozen.len() {
            let stores = ctl.events(ROLE_FROZEN0 + i).iter().filter(|e| matches!(e, Op::Store(_))).count();
            if stores >= 3 {
                commits_during_observer += 1;
            }
        }
    }

    // ---- phase 4: the observer runs ALONE to completion
    let before = ctl.events(ROLE_OBSERVER).len();
    ctl.grant(ROLE_OBSERVER, UNLIMITED);
    let step_cap = if LONG_OBSERVER_OPS.contains(&sc.observer) { MANY * 16 } else { STEP_CAP };
    let stop = ctl.settle(ROLE_OBSERVER, step_cap);
    let events = ctl.events(ROLE_OBSERVER);
    outcome.observer_events = events.clone();
    let what = format!("{:?}", sc.observer);
    match stop {
        Stop::Done => {}
        Stop::ParkedInLock => {
            return Err((format!("{} WAITS for the writer lock held by a suspended writer (its steps: {:?})", what, events), handles));
        }
        Stop::StepCap => {
            return Err((format!("{} does not complete within {} of its own steps while writers are suspended (its steps so far: {:?})", what, step_cap, &events[..events.len().min(24)]), handles));
        }
        Stop::BlockedInKernel => {
            return Err((format!("{} WAITS: it is asleep in the kernel (blocked on something other than the instrumented writer lock) while writers are suspended and nobody else runs (its steps so far: {:?})", what, &events[..events.len().min(24)]), handles));
        }
        other => return Err((format!("harness: observer stopped at {:?} in phase 4", other), handles)),
    }
    let _ = before;
    // ---- per-observer oracles
    let loads = events.iter().filter(|e| matches!(e, Op::Load(_))).count();
    let locks = events.iter().filter(|e| matches!(e, Op::Lock)).count();
    let trylocks = events.iter().filter(|e| matches!(e, Op::TryLock)).count();
    let results = observer_result.lock().unwrap().clone();
    outcome.observer_result = format!("{:?}", results);
    // which frozen writers will still land their update (they are released afterwards)
    match sc.observer {
        ObserverOp::Snapshot | ObserverOp::SnapshotTwice | ObserverOp::SnapshotMany => {
            let n = match sc.observer {
                ObserverOp::Snapshot => 1,
                ObserverOp::SnapshotTwice => 2,
                _ => MANY,
            };
            if locks + trylocks > 0 {
                return Err((format!("snapshot performed lock operations: {:?}", &events[events.len().saturating_sub(12)..]), handles));
            }
            if results.len() != n {
                return Err((format!("snapshot returned {} results", results.len()), handles));
            }
            for (t, ok, _) in &results {
                // Which value is returned is C13's business (loom); here only that the pair is whole.
                if !ok {
                    return Err((format!("snapshot returned base {} with a voucher that does not check", t), handles));
                }
            }
            // it retries only when a write actually completed during its read
            let max_loads = n * 4 + 3 * commits_during_observer;
            if loads > max_loads {
                return Err((format!("snapshot performed {} atomic loads; {} write(s) completed during its read, so at most {} are justified (steps: {:?})", loads, commits_during_observer, max_loads, events), handles));
            }
        }
        ObserverOp::TryUpdateNewer | ObserverOp::TryUpdateFarAhead | ObserverOp::TryUpdateOlder => {
            let (_, _, got) = results[0];
            // (how many try_lock operations it performs is its own business, as long as it neither
            // waits nor spins; returning early without touching the lock is fine)
            let _ = trylocks;

            // The verdict depends on who held the lock when try_lock ran: read it from the events.
            let acquired = events.iter().any(|e| matches!(e, Op::TryLocked(true)));
            if locks > 0 && outcome.frozen_holding_lock {
                return Err((format!("try_update called a blocking lock() while a suspended writer holds the lock: {:?}", events), handles));
            }
            if !acquired && got {
                return Err(("try_update returned true without acquiring the lock".to_string(), handles));
            }
            if sc.observer == ObserverOp::TryUpdateOlder && got {
                return Err(("try_update accepted an older base time".to_string(), handles));
            }
            if matches!(sc.observer, ObserverOp::TryUpdateNewer | ObserverOp::TryUpdateFarAhead) && acquired && !sc.poisoned && !got {
                return Err(("try_update acquired the lock with a newer base time but returned false".to_string(), handles));
            }
            if got {
                accepted_max = accepted_max.max(if sc.observer == ObserverOp::TryUpdateFarAhead { FAR } else { 40 });
            }
        }
        ObserverOp::TryUpdateFourTimes | ObserverOp::TryUpdateMany => {
            if locks > 0 && outcome.frozen_holding_lock {
                return Err((format!("one of several consecutive try_update calls used a blocking lock() while a suspended writer holds the lock: {:?}", &events[events.len().saturating_sub(12)..]), handles));
            }
            let acquired = events.iter().filter(|e| matches!(e, Op::TryLocked(true))).count();
            let accepted = results.iter().filter(|r| r.2).count();
            if accepted > acquired {
                return Err(("try_update returned true without acquiring the lock".to_string(), handles));
            }
            if let Some(m) = results.iter().filter(|r| r.2).map(|r| r.0).max() {
                accepted_max = accepted_max.max(m);
            }
        }
        ObserverOp::Sequence => {
            if locks + trylocks > 0 || loads != 1 {
                return Err((format!("sequence() performed {:?}", events), handles));
            }
        }
    }
    let expect_final = accepted_max; // a lower bound: suspended writers may still land newer values
    Ok((outcome, handles, expect_final))
}

fn run_checked(sc: &Scenario) -> Result<Outcome, String> {
    match catch(|| run_scenario(sc)) {
        Ok(r) => r,
        Err(p) => {
            Controller::uninstall();
            Err(format!("panic: {}", p))
        }
    }
}

fn scenarios(tier: Tier) -> Vec<Scenario> {
    let mut v = Vec::new();
    let max_k = 11; // update(newer) has 9 step points; a few more = finished
    for start_seq in [1u8, 2] {
        for poisoned in [false, true] {
            for observer in OBSERVER_OPS {
                let max_pause = match observer {
                    ObserverOp::Snapshot => 4,
                    ObserverOp::SnapshotTwice => 8,
                    ObserverOp::TryUpdateNewer | ObserverOp::TryUpdateFarAhead | ObserverOp::TryUpdateOlder => 8,
                    ObserverOp::Sequence => 1,
                    ObserverOp::TryUpdateFourTimes => 2,
                    _ => 0,
                };
                for observer_pause in 0..=max_pause {
                    for completed_writer in [false, true] {
                        // one frozen writer at every step
                        for w in WRITER_OPS {
                            for k in 0..=max_k {
                                v.push(Scenario { start_seq, poisoned, observer, observer_pause, completed_writer, frozen: vec![(w, k)], high: false, warm: false });
                            }
                        }
                        // no frozen writer at all (the observer paused, a writer completed)
                        v.push(Scenario { start_seq, poisoned, observer, observer_pause, completed_writer, frozen: vec![], high: false, warm: false });
                    }
                }
                // two frozen writers (observer not paused, no completed writer)
                let two_max = tier.pick(8, max_k);
                for w1 in WRITER_OPS {
                    for k1 in 0..=two_max {
                        for w2 in WRITER_OPS {
                            for k2 in 0..=two_max {
                                v.push(Scenario { start_seq, poisoned, observer, observer_pause: 0, completed_writer: false, frozen: vec![(w1, k1), (w2, k2)], high: false, warm: false });
                            }
                        }
                    }
                }
            }
        }
    }
    // long observers: one suspended writer at every step, no pause, no completed writer
    for start_seq in [1u8, 2] {
        for poisoned in [false, true] {
            for observer in LONG_OBSERVER_OPS {
                for w in WRITER_OPS {
                    for k in 0..=max_k {
                        v.push(Scenario { start_seq, poisoned, observer, observer_pause: 0, completed_writer: false, frozen: vec![(w, k)], high: false, warm: false });
                    }
                }
            }
        }
    }
    // base times at the top of the u64 range, and an observer thread that has just read another,
    // more advanced instance: one suspended writer at every step, no pause
    for (high, warm) in [(true, false), (false, true), (true, true)] {
        for start_seq in [1u8, 2] {
            for observer in OBSERVER_OPS {
                for completed_writer in [false, true] {
                    for w in WRITER_OPS {
                        for k in 0..=max_k {
                            v.push(Scenario { start_seq, poisoned: false, observer, observer_pause: 0, completed_writer, frozen: vec![(w, k)], high, warm });
                        }
                    }
                }
            }
        }
    }
    v
}

/// C18 clause (ii): `nfs_voucher::get_base_time_unlocked` (and the non-blocking
/// `observe_file_time`) while another thread is suspended inside the module's own
/// `BASE_TIME` update, holding the writer lock.
fn nfs_scenario(k: usize, observer_is_observe: bool, second: bool, warm: bool, dir: &std::path::Path) -> Result<Vec<Op>, String> {
    use vouched_time::nfs_voucher;
    let path = dir.join("trusted");
    if warm {
        // non-initial module state: a registration completed and the base time is no longer the epoch placeholder
        nfs_voucher::add_trusted_path(dir.join("warm")).map_err(|e| format!("harness: warm-up registration failed: {}", e))?;
    }
    let ctl = Controller::new(3);
    ctl.install();
    let mut handles: Handles = Vec::new();
    let p2 = path.clone();
    handles.push(spawn_role(&ctl, ROLE_FROZEN0, move || {
        let _ = nfs_voucher::add_trusted_path(p2);
    }));
    ctl.grant(ROLE_FROZEN0, k);
    let stop = ctl.settle(ROLE_FROZEN0, 1000);
    let result = (|| {
        if stop == Stop::Timeout {
            return Err("harness: the suspended add_trusted_path did not settle".to_string());
        }
        let holding = ctl.holder() == Some(ROLE_FROZEN0);
        if second {
            // a second registration runs to completion while the first one is suspended
            let p4 = dir.join("second");
            handles.push(spawn_role(&ctl, ROLE_COMPLETED, move || {
                let _ = nfs_voucher::add_trusted_path(p4);
            }));
            ctl.grant(ROLE_COMPLETED, UNLIMITED);
            match ctl.settle(ROLE_COMPLETED, 1000) {
                Stop::Done => {}
                Stop::ParkedInLock => return Err("a second add_trusted_path WAITS for the base-time writer lock held by the suspended one".to_string()),
                Stop::StepCap => return Err("a second add_trusted_path (wait-free try_update inside) does not complete within 1000 of its own steps while the first one is suspended".to_string()),
                Stop::BlockedInKernel => return Err("a second add_trusted_path (wait-free try_update inside) WAITS: it is asleep in the kernel, blocked on something other than the instrumented writer lock, while the first one is suspended".to_string()),
                other => return Err(format!("harness: the second add_trusted_path stopped at {:?}", other)),
            }
        }
        let p3 = path.clone();
        let res: Arc<std::sync::Mutex<Option<bool>>> = Arc::new(std::sync::Mutex::new(None));
        let res2 = res.clone();
        handles.push(spawn_role(&ctl, ROLE_OBSERVER, move || {
            let ok = if observer_is_observe {
                // a file on the same device; try_update inside must not wait
                match std::fs::File::open(&p3) {
                    Ok(f) => nfs_voucher::observe_file_time(&f).is_ok(),
                    Err(_) => true, // the suspended call has not created the file yet
                }
            } else {
                match nfs_voucher::get_base_time_unlocked(time::OffsetDateTime::now_utc()) {
                    Ok((b, v)) => CHECK.check(b, v),
                    Err(_) => false,
                }
            };
            *res2.lock().unwrap() = Some(ok);
        }));
        ctl.grant(ROLE_OBSERVER, UNLIMITED);
        let stop = ctl.settle(ROLE_OBSERVER, STEP_CAP);
        let events = ctl.events(ROLE_OBSERVER);
        let name = if observer_is_observe { "observe_file_time" } else { "get_base_time_unlocked" };
        match stop {
            Stop::Done => {}
            Stop::ParkedInLock => return Err(format!("{} WAITS for the base-time writer lock held by a suspended add_trusted_path (its steps: {:?})", name, events)),
            Stop::StepCap => return Err(format!("{} does not complete within {} steps while a writer is suspended", name, STEP_CAP)),
            Stop::BlockedInKernel => return Err(format!("{} WAITS: it is asleep in the kernel, blocked on something other than the instrumented writer lock, while a writer is suspended (its steps: {:?})", name, events)),
            other => return Err(format!("harness: {} stopped at {:?}", name, other)),
        }
        let locks = events.iter().filter(|e| matches!(e, Op::Lock)).count();
        let trylocks = events.iter().filter(|e| matches!(e, Op::TryLock)).count();
        let loads = events.iter().filter(|e| matches!(e, Op::Load(_))).count();
        if observer_is_observe {
            if locks > 0 && holding {
                return Err(format!("observe_file_time called a blocking lock() while a suspended writer holds the lock: {:?}", events));
            }
        } else {
            if locks + trylocks > 0 {
                return Err(format!("get_base_time_unlocked performed lock operations: {:?}", events));
            }
            if loads > 4 {
                return Err(format!("get_base_time_unlocked performed {} loads although no write completed during its read", loads));
            }
        }
        if *res.lock().unwrap() != Some(true) {
            return Err(format!("{} failed or returned a pair that does not check", name));
        }
        Ok(events)
    })();
    ctl.release_all();
    let _ = join_or_abandon(handles);
    Controller::uninstall();
    result
}

/// Clause (ii), second shape: a refresh (`get_base_time` with a `now` far ahead) is suspended inside its blocking update of
/// the base time after k steps, i.e. holding the writer lock AND the read guard on the module's
/// table of trusted paths; another thread's `add_trusted_path` is queued behind that guard for
/// write access; then `get_base_time_unlocked` runs with a `now` far ahead of the base time.  It
/// must return without waiting for anybody (a reader-writer lock stops admitting readers once a
/// writer is queued, so touching that table would make it wait for the suspended refresh).
fn nfs_scan_scenario(k: usize, dir: &std::path::Path) -> Result<Vec<Op>, String> {
    use vouched_time::nfs_voucher;
    nfs_voucher::add_trusted_path(dir.join("warm")).map_err(|e| format!("harness: warm-up registration failed: {}", e))?;
    let ctl = Controller::new(3);
    ctl.install();
    let mut handles: Handles = Vec::new();
    handles.push(spawn_role(&ctl, ROLE_FROZEN0, move || {
        // a refresh: `now` far ahead of the base time makes get_base_time scan the trusted paths
        let _ = nfs_voucher::get_base_time(time::OffsetDateTime::now_utc() + time::Duration::hours(1));
    }));
    ctl.grant(ROLE_FROZEN0, k);
    let stop = ctl.settle(ROLE_FROZEN0, 1000);
    let mut queued: Option<std::thread::JoinHandle<()>> = None;
    let result = (|| {
        match stop {
            Stop::Timeout => return Err("harness: the suspended scan_base_time did not settle".to_string()),
            Stop::Done => return Ok(Vec::new()), // the refresh finished within k steps: nothing is suspended
            _ => {}
        }
        // queue a writer on the table of trusted paths (an ordinary thread: it blocks in the real lock)
        let p = dir.join("second");
        queued = Some(std::thread::spawn(move || {
            let _ = nfs_voucher::add_trusted_path(p);
        }));
        std::thread::sleep(std::time::Duration::from_millis(60));
        let res: Arc<std::sync::Mutex<Option<bool>>> = Arc::new(std::sync::Mutex::new(None));
        let res2 = res.clone();
        handles.push(spawn_role(&ctl, ROLE_OBSERVER, move || {
            let far = time::OffsetDateTime::now_utc() + time::Duration::hours(1);
            let ok = match nfs_voucher::get_base_time_unlocked(far) {
                Ok((b, v)) => CHECK.check(b, v),
                Err(_) => false,
            };
            *res2.lock().unwrap() = Some(ok);
        }));
        ctl.grant(ROLE_OBSERVER, UNLIMITED);
        let stop = ctl.settle_within(ROLE_OBSERVER, STEP_CAP, std::time::Duration::from_secs(2));
        let events = ctl.events(ROLE_OBSERVER);
        match stop {
            Stop::Done => {}
            Stop::ParkedInLock => return Err(format!("get_base_time_unlocked WAITS for the base-time writer lock held by a suspended refresh (its steps: {:?})", events)),
            Stop::StepCap => return Err(format!("get_base_time_unlocked does not complete within {} steps while a refresh is suspended", STEP_CAP)),
            Stop::Timeout | Stop::BlockedInKernel => return Err(format!("get_base_time_unlocked did not return within 2 s while a refresh is suspended after {} steps and a registration is queued behind it: it waits (outside the base-time lock) for the suspended writer (its steps so far: {:?})", k, events)),
            other => return Err(format!("harness: get_base_time_unlocked stopped at {:?}", other)),
        }
        if events.iter().any(|e| matches!(e, Op::Lock | Op::TryLock)) {
            return Err(format!("get_base_time_unlocked performed lock operations: {:?}", events));
        }
        if *res.lock().unwrap() != Some(true) {
            return Err("get_base_time_unlocked failed or returned a pair that does not check".to_string());
        }
        Ok(events)
    })();
    ctl.release_all();
    let mut handles = handles;
    if let Some(q) = queued {
        handles.push(q);
    }
    let _ = join_or_abandon(handles);
    Controller::uninstall();
    result
}

/// The module's state (BASE_TIME, TRUSTED_PATHS) is process-global, so every scenario runs in a
/// fresh child process of this executable.
fn nfs_child_run(k: usize, observe: bool, second: bool, warm: bool) -> Result<usize, String> {
    nfs_child_run_kind(k, observe, second, warm, false)
}

fn nfs_child_run_kind(k: usize, observe: bool, second: bool, warm: bool, scan: bool) -> Result<usize, String> {
    let exe = std::env::current_exe().map_err(|e| format!("harness: current_exe: {}", e))?;
    let out = std::process::Command::new(exe)
        .args(["--nfs-child", &k.to_string(), &observe.to_string(), &second.to_string(), &warm.to_string(), if scan { "scan" } else { "register" }])
        .output()
        .map_err(|e| format!("harness: cannot spawn the scenario child: {}", e))?;
    let text = String::from_utf8_lossy(&out.stdout);
    for line in text.lines() {
        if let Some(n) = line.strip_prefix("NFS-OK ") {
            return n.trim().parse::<usize>().map_err(|_| "harness: bad child answer".to_string());
        }
        if let Some(e) = line.strip_prefix("NFS-ERR ") {
            return Err(e.to_string());
        }
    }
    Err(format!("harness: the scenario child gave no verdict (status {:?})", out.status.code()))
}

fn nfs_child_main(args: &[String]) -> ! {
    let k: usize = args[0].parse().unwrap_or(0);
    let flag = |i: usize| args.get(i).map(|s| s == "true").unwrap_or(false);
    let dir = std::path::PathBuf::from(format!("/tmp/woodpile-c18-{}", std::process::id()));
    let _ = std::fs::remove_dir_all(&dir);
    let _ = std::fs::create_dir_all(&dir);
    let scan = args.get(4).map(|s| s == "scan").unwrap_or(false);
    let r = match catch(|| if scan { nfs_scan_scenario(k, &dir) } else { nfs_scenario(k, flag(1), flag(2), flag(3), &dir) }) {
        Ok(r) => r,
        Err(p) => Err(format!("panic: {}", p)),
    };
    let _ = std::fs::remove_dir_all(&dir);
    match r {
        Ok(ev) => println!("NFS-OK {}", ev.len()),
        Err(e) => println!("NFS-ERR {}", e.replace('\n', " ")),
    }
    std::process::exit(0);
}

fn nfs_clause(ctx: &Ctx, rep: &mut Report) {
    let mut unit = 1_000_000usize;
    for warm in [false, true] {
        for second in [false, true] {
            for k in 0..=12usize {
                for observe in [false, true] {
                    unit += 1;
                    if !ctx.owns(unit) {
                        continue;
                    }
                    rep.evaluations += 1;
                    match nfs_child_run(k, observe, second, warm) {
                        Ok(events) => {
                            rep.transitions += events as u64;
                            rep.count("nfs_unlocked_scenarios", 1);
                            rep.state(hash_of(&("nfs", warm, second, k, observe)));
                        }
                        Err(e) if e.starts_with("harness:") => machinery_failure(&format!("{} (nfs scenario k={} observe={} second={} warm={})", e, k, observe, second, warm)),
                        Err(e) => {
                            if nfs_child_run(k, observe, second, warm).is_ok() {
                                machinery_failure(&format!("C18 nfs violation did not reproduce: k={} observe={} second={} warm={}: {}", k, observe, second, warm, e));
                            }
                            rep.violation(Violation {
                                key: format!("C18:nfs:k={}:observe={}:second={}:warm={}", k, observe, second, warm),
                                summary: format!("nfs_voucher with add_trusted_path suspended after {} steps{}{}: {}", k, if second { ", a second registration completed meanwhile" } else { "" }, if warm { ", base time already established" } else { ", fresh process" }, e),
                                replay_text: format!("nfs: k={} observe={} second={} warm={}\nobserved: {}\n", k, observe, second, warm, e),
                            });
                        }
                    }
                }
            }
        }
    }
    // second shape: a suspended refresh holding the table's read guard, a queued registration
    for k in 1..=14usize {
        unit += 1;
        if !ctx.owns(unit) {
            continue;
        }
        rep.evaluations += 1;
        match nfs_child_run_kind(k, false, true, true, true) {
            Ok(events) => {
                rep.transitions += events as u64;
                rep.count("nfs_scan_scenarios", 1);
                rep.state(hash_of(&("nfs-scan", k)));
            }
            Err(e) if e.starts_with("harness:") => machinery_failure(&format!("{} (nfs scan scenario k={})", e, k)),
            Err(e) => {
                if nfs_child_run_kind(k, false, true, true, true).is_ok() {
                    machinery_failure(&format!("C18 nfs scan violation did not reproduce: k={}: {}", k, e));
                }
                rep.violation(Violation {
                    key: format!("C18:nfs-scan:k={}", k),
                    summary: format!("nfs_voucher with a refreshing get_base_time suspended after {} steps and an add_trusted_path queued behind it: {}", k, e),
                    replay_text: format!("nfs: k={} scan=true\nobserved: {}\n", k, e),
                });
            }
        }
    }
    rep.note("clause (ii), second shape: a refreshing get_base_time suspended after each of its first 14 steps (inside its blocking update it holds the writer lock and the read guard on the table of trusted paths), an add_trusted_path queued behind it, then get_base_time_unlocked with a now one hour ahead: it must return (2 s deadline) without lock operations".to_string());
    rep.note("clause (ii): nfs_voucher::get_base_time_unlocked and observe_file_time run alone while a thread is suspended after each of the first 13 steps of add_trusted_path's update of the module's BASE_TIME (holding its writer lock for steps 2..), in a fresh process and after a completed registration, with and without a second add_trusted_path completing while the first is suspended; every scenario in its own child process (the module state is process-global): no lock operation / no waiting, at most 4 loads, a checked pair".to_string());
}

fn run(ctx: &Ctx) -> Report {
    if ctx.prop == "C13" {
        return seq::run(ctx);
    }
    let mut rep = Report::new();
    if ctx.prop != "C18" {
        machinery_failure("abt_freeze serves C18 (suspension schedules) and the sequential clause of C13");
    }
    nfs_clause(ctx, &mut rep);
    let all = scenarios(ctx.tier);
    let mut reported = 0usize;
    for (u, sc) in all.iter().enumerate() {
        if !ctx.owns(u) {
            continue;
        }
        if reported >= 4 {
            // every violating scenario costs seconds of real waiting (a blocked observer is only
            // recognised after a second): four reports per worker are enough to decide the run
            rep.not_exhaustive = true;
            rep.note("stopped after four violations in this worker: the run is NOT exhaustive".to_string());
            break;
        }
        rep.evaluations += 1;
        match run_checked(sc) {
            Ok(out) => {
                rep.transitions += out.observer_events.len() as u64;
                if out.frozen_holding_lock {
                    rep.nontrivial += 1;
                }
                rep.state(hash_of(&sc.render()));
                rep.outcome(hash_of(&(format!("{:?}", out.observer_events), out.frozen_holding_lock, out.observer_result.clone())));
                if rep.want_sample() {
                    rep.sample(format!("{} => observer steps {:?}, result {}, lock held by a suspended writer: {}", sc.render(), out.observer_events, out.observer_result, out.frozen_holding_lock));
                }
            }
            Err(e) => {
                if e.starts_with("harness:") {
                    machinery_failure(&format!("{} in scenario {}", e, sc.render()));
                }
                let again = run_checked(sc);
                let r = sc.render();
                if again.is_ok() {
                    // process-global state in the code under test (a static memo, a once-cell) can make a
                    // second run in this process take another path: the verdict is then that of the
                    // scenario run on its own in a fresh process
                    if !reproduces_in_fresh_process(&ctx.prop, &format!("scenario: {}\nobserved: {}\n", r, e)) {
                        machinery_failure(&format!("C18 violation did not reproduce: {} / {}", sc.render(), e));
                    }
                    rep.count("violations_confirmed_in_a_fresh_process", 1);
                }
                reported += 1;
                rep.violation(Violation { key: format!("C18:{}", r.replace(' ', ";")), summary: format!("AtomicBaseTime [{}]: {}", r, e), replay_text: format!("scenario: {}\nobserved: {}\n", r, e) });
            }
        }
    }
    rep.max_depth = 3;
    rep.note(format!("{} scenarios: start state (1 or 2 prior updates, lock poisoned or not) x observer in {{snapshot, snapshot x2, try_update(newer), try_update(+1 000 000 ms), try_update(older), sequence}} paused after every one of its own steps (0 = not started) x {{no / one writer completing a whole update meanwhile}} x one writer in {{update(newer), update(older), try_update(newer)}} suspended after every one of its steps 0..=11 (or none); plus two suspended writers at every pair of steps; then the observer runs alone to completion", all.len()));
    rep
}

fn replay(_ctx: &Ctx, text: &str) -> Result<String, String> {
    if field(text, "sequential").is_some() || field(text, "sequential-twin").is_some() {
        return seq::replay(text);
    }
    if let Some(n) = field(text, "nfs") {
        let k: usize = n.split("k=").nth(1).and_then(|x| x.split(' ').next()).and_then(|x| x.parse().ok()).unwrap_or(0);
        let r = if n.contains("scan=true") { nfs_child_run_kind(k, false, true, true, true) } else { nfs_child_run(k, n.contains("observe=true"), n.contains("second=true"), n.contains("warm=true")) };
        return match r {
            Err(e) => Ok(e),
            Ok(ev) => Err(format!("completed alone in {} steps", ev)),
        };
    }
    let Some(sc) = field(text, "scenario").and_then(Scenario::parse) else {
        machinery_failure("cannot parse scenario");
    };
    match run_checked(&sc) {
        Err(e) => Ok(e),
        Ok(out) => Err(format!("observer completed alone: steps {:?}, result {}", out.observer_events, out.observer_result)),
    }
}

fn main() {
    let args: Vec<String> = std::env::args().collect();
    if args.get(1).map(|s| s.as_str()) == Some("--nfs-child") {
        nfs_child_main(&args[2..]);
    }
    main_entry(Engine {
        name: "abt_freeze",
        level: |_| "model_checking",
        rule: |c| if c.prop == "C13" { "exhaustive enumeration of all sequential operation histories (incl. panicking updates that poison the writer lock) up to a depth bound on the real AtomicBaseTime against a reference model".into() } else { "explicit enumeration of suspension schedules over real OS threads running the real AtomicBaseTime code: the step hook (H3 observer) holds each writer after exactly k of its stand-in operations (lock, try_lock, each atomic load/store, unlock), the observer then runs alone. Oracles: the observer returns within 64 of its own steps; it is never found inside lock() behind a suspended writer; snapshot performs no lock operation and only as many loads as the writes that completed during its read justify; try_update never performs a blocking lock while a suspended writer holds the lock and returns false unless it acquired the lock. Values are C13's business and are not judged here. states = distinct scenarios; non-trivial = scenarios in which a suspended writer holds the lock while the observer runs.".into() },
        run,
        replay,
        assumptions: |_| vec![
            "step points are the stand-in operations of hook H3 (every atomic access and lock operation of atomic_base_time.rs)".into(),
            "at most two suspended writers plus one completed writer".into(),
        ],
        decode_breadcrumb: None,
    });
}
