#!/usr/bin/env python3
"""Validates MANIFEST.json and every evidence file against the schemas (needs jsonschema: run with python3-vt)."""
import json, sys, glob
import jsonschema
m = json.load(open('/verif/MANIFEST.json'))
jsonschema.validate(m, json.load(open('/root/.vp/MANIFEST.schema.json')))
print("MANIFEST.json valid: %d checks, %d not_applicable" % (len(m['checks']), len(m.get('not_applicable', []))))
es = json.load(open('/root/.vp/EVIDENCE.schema.json'))
bad = 0
for p in sorted(glob.glob('/verif/evidence/*.json')):
    try:
        e = json.load(open(p))
        jsonschema.validate(e, es)
        c = e['coverage']
        print("  %s ok: level=%s tier=%s eval=%s states=%s exhaustive=%s violations=%s wall=%ss" % (p.split('/')[-1], e['level'], e['tier'], c.get('evaluations'), c.get('states'), c.get('exhaustive'), e.get('violations'), e['wall_s']))
    except Exception as ex:
        bad += 1
        print("  %s INVALID: %s" % (p, str(ex)[:300]))
sys.exit(1 if bad else 0)
