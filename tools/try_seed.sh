#!/bin/bash
# usage: tools/try_seed.sh <patch.diff> <tier> <prop> [<prop>...]
# Applies a seeded change to /repo, runs the given checks, and always reverts.
patch="$1"; tier="$2"; shift 2
cd /repo || exit 2
if ! git diff --quiet; then echo "REPO DIRTY, refusing"; exit 2; fi
git apply "$patch" || { echo "PATCH DOES NOT APPLY"; exit 2; }
mkdir -p /tmp/seedwork; bak=$(mktemp -d /tmp/seedwork/evbak.XXXXXX); cp -a /verif/evidence/. "$bak"/
trap 'git -C /repo checkout -- . ; git -C /repo clean -fdq -- . >/dev/null 2>&1; rm -rf /verif/evidence; mkdir -p /verif/evidence; cp -a "$bak"/. /verif/evidence/; rm -rf "$bak"' EXIT
cd /verif
for p in "$@"; do
  out=$(./check "$p" "$tier" 2>&1); code=$?
  echo "== $p exit=$code"
  echo "$out" | grep -E "VIOLATION|what fails|MACHINERY|KNOWN" | head -4
done
