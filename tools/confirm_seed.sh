#!/bin/bash
# usage: tools/confirm_seed.sh <Cxx> <k>
# Confirms a sub-agent's seeded change in a scratch worktree of /repo (never in /repo itself):
#   1. the patch applies and the workspace builds, 2. the unedited suite still passes (122),
#   3. the demonstration fails with the change, 4. and passes without it.
# On success copies patch.diff, demo.rs, meta.json (+ confirmation log) to /verif/seeded/<Cxx>-<k>/.
id="$1"; k="$2"
root=${SEED_ROOT:-/tmp/seedwork}; koff=${SEED_KOFF:-0}; kk=$((k+koff))
src=$root/out-$id/$k
wt=/tmp/seedwork/confirm-$id-$kk
log=/tmp/seedwork/confirm-$id-$kk.log
export CARGO_NET_OFFLINE=true CARGO_TARGET_DIR=/tmp/seedwork/confirm-target-$id
exec >"$log" 2>&1
set -x
crate=$(python3 -c "import json;print(json.load(open('$src/meta.json'))['crate'])" | awk '{print $1}' | tr -d ',')
if [ -n "$3" ]; then crate="$3"; fi
git -C /repo worktree remove --force "$wt" 2>/dev/null
git -C /repo worktree add -q --detach "$wt" HEAD || exit 2
cd "$wt"
res="applies=no"
if git apply "$src/patch.diff"; then
  res="applies=yes"
  if cargo nextest run --workspace --no-fail-fast --offline -j 6 2>&1 | tee /dev/stderr | grep -q "122 tests run: 122 passed"; then res="$res suite=122pass"; else res="$res suite=FAIL"; fi
  mkdir -p "$crate/tests"; cp "$src/demo.rs" "$crate/tests/seeded_demo.rs"
  if cargo test -p "$crate" --test seeded_demo --offline -j 6; then res="$res demo_with=PASS(bad)"; else res="$res demo_with=fail"; fi
  git apply -R "$src/patch.diff"
  if cargo test -p "$crate" --test seeded_demo --offline -j 6; then res="$res demo_without=pass"; else res="$res demo_without=FAIL(bad)"; fi
fi
cd /
git -C /repo worktree remove --force "$wt"
set +x
echo "CONFIRM $id/$kk crate=$crate $res"
if [ "$res" = "applies=yes suite=122pass demo_with=fail demo_without=pass" ]; then
  dst=/verif/seeded/$id-$kk; mkdir -p "$dst"
  cp "$src/patch.diff" "$src/demo.rs" "$dst/"
  python3 - "$src/meta.json" "$dst/meta.json" "$res" <<'PY'
import json,sys
m=json.load(open(sys.argv[1])); m['confirmed_by_me']=sys.argv[3]
m['confirmation_procedure']="scratch worktree of /repo HEAD: git apply; cargo nextest run --workspace (122 passed); demo copied to <crate>/tests/seeded_demo.rs fails with the change and passes after git apply -R"
json.dump(m,open(sys.argv[2],'w'),indent=1)
PY
fi
