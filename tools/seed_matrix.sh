#!/bin/bash
# usage: tools/seed_matrix.sh [seed-dir ...]   (default: every /verif/seeded/C*-*)
# For each seeded change: applies it to /repo, runs the quick tier of every check that can be
# affected by the crates it touches, reverts, and records the verdicts in meta.json
# (caught_by / not_caught_by) and in /verif/seeded/RESULTS.md.
cd /verif
seeds=("$@"); if [ ${#seeds[@]} -eq 0 ]; then seeds=(seeded/C*-*); fi
for d in "${seeds[@]}"; do
  d=${d%/}; case $d in /*) ;; *) d=/verif/$d;; esac; name=$(basename $d); target=${name%-*}
  crates=$(grep '^+++ b/' $d/patch.diff | sed 's|+++ b/||; s|/.*||' | sort -u | tr '\n' ' ')
  checks="$target"
  [ -n "$MATRIX_TARGET_ONLY" ] && crates=""
  for c in $crates; do case $c in
    sliding_deque) checks="$checks C15 C16";;
    owning_iovec) checks="$checks C03 C05";;
    hcobs) checks="$checks C01 C06";;
    rough_tlv) checks="$checks C11 C12";;
    vouched_time) checks="$checks C13 C18";;
  esac; done
  checks=$(echo $checks | tr ' ' '\n' | awk '!s[$0]++' | tr '\n' ' ')
  out=$(tools/try_seed.sh $d/patch.diff quick $checks 2>&1)
  caught=$(echo "$out" | grep '^== ' | grep 'exit=1' | sed 's/== \(C[0-9]*\).*/\1/' | tr '\n' ' ')
  missed=$(echo "$out" | grep '^== ' | grep 'exit=0' | sed 's/== \(C[0-9]*\).*/\1/' | tr '\n' ' ')
  broken=$(echo "$out" | grep '^== ' | grep -v 'exit=[01]' | sed 's/== \(C[0-9]*\).*/\1/' | tr '\n' ' ')
  first=$(echo "$out" | grep -A1 "^== $target " | grep 'what fails' | head -1 | cut -c1-260)
  python3 - "$d/meta.json" "$caught" "$missed" "$broken" "$first" <<'PY'
import json,sys
p=sys.argv[1]; m=json.load(open(p))
m['caught_by']=sys.argv[2].split(); m['checks_run_not_reporting']=sys.argv[3].split(); m['checks_machinery_failure']=sys.argv[4].split()
m['first_report_of_target_check']=sys.argv[5].strip()
m['what_i_ran']="tools/try_seed.sh <patch> quick <checks> (git -C /repo apply; ./check <id> quick for every check that depends on a touched crate; git -C /repo checkout -- .)"
json.dump(m,open(p,'w'),indent=1)
PY
  echo "$name target=$target caught_by=[$caught] silent=[$missed] machinery=[$broken]"
done
python3 - <<'PY'
import json,glob,os
rows=[]
for d in sorted(glob.glob('/verif/seeded/C*-*')):
    m=json.load(open(d+'/meta.json'))
    if 'caught_by' not in m: continue
    name=os.path.basename(d); target=name.split('-')[0]
    rows.append((name,target,m))
with open('/verif/seeded/RESULTS.md','w') as f:
    f.write("# Seeded changes x checks (quick tier)\n\nEach change was written by an independent sub-agent that saw only the property text and a scratch worktree; I confirmed in a scratch worktree that it applies, that the unedited 122-test suite still passes with it, and that the agent's demonstration fails with it and passes without it.  `caught by` lists every check whose quick tier exits 1 with the change applied to /repo; `silent` lists the other checks that were run (they depend on a touched crate but their property is not broken by this change, or they miss it).\n\n| seed | target | what it is | needs to manifest | target check | caught by | silent |\n|---|---|---|---|---|---|---|\n")
    for name,target,m in rows:
        ok = 'CAUGHT' if target in m['caught_by'] else ('MACHINERY' if target in m.get('checks_machinery_failure',[]) else 'MISSED')
        f.write("| %s | %s | %s | %s | %s | %s | %s |\n" % (name,target,m.get('summary','').replace('|','/').replace('\n',' ')[:220],m.get('needs_to_manifest','').replace('|','/').replace('\n',' ')[:220],ok,' '.join(m['caught_by']),' '.join(m['checks_run_not_reporting'])))
print("wrote RESULTS.md with %d rows"%len(rows))
PY
