#!/bin/bash
# usage: tools/run_all.sh quick|thorough  — runs every registered check, prints one line per check, validates evidence.
tier="${1:-quick}"
cd /verif
for p in $(python3 -c "import json;print(' '.join(c['property_id'] for c in json.load(open('MANIFEST.json'))['checks']))"); do
  start=$(date +%s)
  out=$(./check $p $tier 2>&1); code=$?
  echo "$p exit=$code $(( $(date +%s) - start ))s :: $(echo "$out" | tail -1 | cut -c1-200)"
  echo "$out" | grep -E "VIOLATION|MACHINERY|KNOWN" | head -3
done
python3-vt tools/validate.py | grep -E "INVALID|valid:"
