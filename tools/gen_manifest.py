#!/usr/bin/env python3
"""Regenerates /verif/MANIFEST.json from the table below (single source of truth)."""
import json
import os

ROOT = os.path.dirname(os.path.dirname(os.path.abspath(__file__)))

HOOK_COMMITS = [
    "9da2e4b verif hook H1: live-chunk registry and quarantine in owning_iovec",
    "866e0b6 verif hook H2: HCOBS codec entry points with caller-chosen chunk limits",
    "6e7f200 verif hook H3: observable stand-ins for AtomicBaseTime's atomics and mutex",
]

# id -> dict(engine, category, text, note, technique, design)
CHECKS = {
    "C15": dict(
        engine="deque_mc",
        category="model_checking",
        design="DESIGN.md section 4, C15",
        technique="explicit-state model checking of the real SlidingDeque: BFS closure over abstract shapes + exhaustive depth-bounded DFS of all op sequences, VecDeque reference model",
        text="Every operation sequence over a 14-op alphabet up to depth 7 (quick) / 8 (thorough) is executed on the real SlidingDeque (Vec, SmallVec<[u32;2]> and an instrumented Vec backing, from empty and From<container> starts, with and without debug assertions) and compared step by step with a VecDeque, both by explorers that copy the deque before every op (exactly-fitting capacity: every push meets a full container) and, to depth 5 / 6, by re-executing each history on one object (amortised capacities); large containers (From<container> with 1024 / 1500 / 5000 items, Vec and spilled SmallVec) run all sequences to depth 4 / 5 over 8 ops including advance(len - len/5); a 16-op alphabet adds clone_from into a deque with history (7 fresh items, with and without a consumed prefix in the source), and a zero-sized family runs all sequences to depth 4 / 5 on SlidingDeque<Vec<()>> of usize::MAX, usize::MAX - 1 and isize::MAX + 1 items (cursor arithmetic at the top of the usize range) against a counter model; in addition a breadth-first closure over the abstract state (physical length, consumed prefix) with <= 24 live elements (containers on both sides of the 64-byte mark) reaches a fix-point, which by data independence covers unbounded histories within that size. The space bound (consumed prefix <= half the backing length) is observed directly through the instrumented backing.",
        note="Assumes the deque's control flow does not depend on element values (no Ord/Eq bound); logical lengths > 8 are not enumerated; reference model is std VecDeque.",
    ),
    "C16": dict(
        engine="deque_mc",
        category="model_checking",
        design="DESIGN.md section 4, C16",
        technique="explicit-state model checking of the real SortedDeque: BFS closure over (physical length, consumed prefix, tombstone flags) + exhaustive depth-bounded DFS, BTreeMap reference model",
        text="Every sequence of push / push-erased / pop_first / pop_last / clear / remove-by-rank / remove-absent up to depth 7 (quick) / 8 (thorough) is executed on the real SortedDeque for both item conventions and three backings; after every op iteration order, first/last/is_empty and find() of every key ever pushed, its absent neighbour and one key above are compared with a BTreeMap, and out-of-order pushes must panic. A closure over tombstone-flag shapes with <= 7 physical items reaches a fix-point. Six non-initial start histories (tombstones then clear, two interior tombstones, emptied by pops, ...) and two SmallVec-backed ones that have spilled to the heap are each followed by all op sequences to depth 6 / 7 (5 / 6 for SmallVec), and all histories to depth 5 / 6 are also re-executed on one object without copies; an extended alphabet performs the rejected pushes (key equal to / below the last item) on the object under test, catches the panic and carries on: the deque must be unchanged.",
        note="Item types whose Ord changes under erasure relative to other keys (DESIGN observation O3) are outside the harness; > 7 physical items not enumerated.",
    ),
}

CHECKS["C11"] = dict(
    engine="tlv_mc",
    category="exploration",
    design="DESIGN.md section 4, C11",
    technique="bounded-exhaustive enumeration of pair lists x value kinds x constructors x sinks on the real encoder, independent layout function + MessageView read-back as oracle",
    text="Every pair list with 0..4 (quick) / 0..5 (thorough) pairs over 6 tags (including pairs whose byte order differs from numeric order) and 3 value lengths, in every order, for six value kinds (&[u8], &str, Cow bytes/str with every borrowed/owned mask, nested MessageWrapper two levels deep, MessageView), through new / new_from_slice / new_from_sorted and into three sinks (OwningIovec, &mut reborrow, hcobs::Encoder) is encoded by the real code; bytes are compared with an independent layout function, rough_tlv_len with the emitted length, and MessageView must return the same pairs. Long lists (every periodic tag pattern of period <= 4 at every length 0..72) cover sort stability beyond the small-sort threshold; values of 65 535 .. 200 000 bytes (every leaf kind, borrowed and owned, 3 constructors, iovec and hcobs sinks) cover copies fed to the sink in pieces; the read-back also indexes one and two past the end; claimed-length values cover the i32::MAX limits.",
    note="The pair-count > i32::MAX rejection is not run (needs an 8 GiB slice). Exhaustive only within the stated finite product.",
)
CHECKS["C12"] = dict(
    engine="tlv_mc",
    category="exploration",
    design="DESIGN.md section 4, C12",
    technique="bounded-exhaustive enumeration of byte buffers (word alphabet x length x trailing bytes) on the real MessageView, reference predicate in u128 arithmetic + reference layout as oracle",
    text="Every buffer of <= 7 (quick) / 8 (thorough) little-endian words over a 13-word alphabet chosen to hit every header shape (N = 0..8, N beyond the buffer, N near 2^29 / 2^31 / 2^32, equal / decreasing / out-of-range offsets and tags, 0xFF vs 0x100) with 0-3 trailing bytes, plus one more word over an 8-word alphabet, is given to MessageView::new (borrowed and owned storage). Borrowed buffers sit at every address modulo 4 (rotating through all addresses modulo 8 in the main enumeration); payloads of 2^32 - 1, 2^32 + 5 and 2^33 + 1 bytes (lazily zeroed) check the 32-bit offset arithmetic against 64-bit lengths. Long headers (N = 2..40, strictly increasing tags and offsets except for exactly one descent or equality at every position) cover scans that work in blocks. Accept/reject must equal the format predicate; on accepted views len/is_empty/tags/iter/get/get_value/find/find_tag/tags_match_exactly are compared with the reference layout for indices 0..N+2, 2^31, 2^32, 2^32 + 1, 2^32 + N - 1, 2^33 and usize::MAX, by position and content; every present tag is looked up twice in a row, forward and backward (lookups must be pure); nothing may panic.",
    note="Values outside the word alphabet are not tried; the predicate only compares words with each other and with the buffer length, and the alphabet has representatives on both sides of each comparison.",
)

CHECKS["C14"] = dict(
    engine="vtime_mc",
    category="exploration",
    design="DESIGN.md section 4, C14",
    technique="bounded-exhaustive enumeration of (local time, base time, voucher) triples in dense blocks around every edge and wrap-around boundary on the real VouchedTime, window rule in i128 as oracle",
    text="For ~50 landmark base times (0, the window constants, calendar limits, i64/u64-nanosecond overflow points, 2^32, 2^63, the top of the u64 range) every millisecond of [base-60000, base+3100] and of [epoch, epoch+3000] is tried as local time; every one of the 62 892 base times at the top of the u64 range is combined with every local time within 3 s of the epoch (the only pairs that can wrap into the window); 24 special local times (calendar limits, epoch-1, overflow points) are combined with every base in their window; genuine, off-by-one, foreign-parameter and bit-flipped vouchers are tried at the edge differences. new/check/check_or_die/get_local_time must agree with the rule and never panic; Sub-millisecond local times (offsets of 1 ns .. 999 999 ns around every edge, around the epoch and below it) are checked for exactness of get_local_time, agreement of new / check and, wherever the millisecond-tick reading and the real-valued reading of the window agree, for the verdict. now() is driven with 13 provider offsets x the 5 voucher kinds (it must apply the same rule as new(), voucher check included).",
    note="The main blocks use whole-millisecond local times; sub-millisecond parts are covered by a separate family (the code works on the millisecond tick at or below the local time; for local - base strictly between +2990 and +2991 ms that reading accepts where a real-valued reading would reject: no verdict is asserted there, see DESIGN 8.3 O6). The full 2^64 x 2^64 space is covered by piecewise linearity, not enumeration.",
)
CHECKS["C17"] = dict(
    engine="readn_mc",
    category="fault_enumeration",
    design="DESIGN.md section 4, C17",
    technique="exhaustive enumeration of reader fault scripts (short reads, EINTR, EOF, hard errors) up to a length bound x counts x attempt limits x arena states x entry points on the real read_n, 15-line specification as oracle",
    text="All reader scripts over {deliver all, deliver 1, deliver 2, Interrupted, EOF, Other error, WouldBlock error, UnexpectedEof error} up to length 6 (quick) / 7 (thorough), then EOF forever, x count in {0,1,2,3,5} (and, for counts beyond one 64008-byte HCOBS chunk, {64008, 64009, 64010, 70000, 128016, 128017} x scripts over {all, 40000, 64008, 1, Interrupted, EOF, errors} up to length 3 / 4; and counts 1 MiB - 1, 1 MiB, 1 MiB + 1 on an arena whose current chunk is already at its largest size class) x max_attempts in {1,2,3,5,MAX} x five arena states (no cache, fresh chunk, remaining == count, count-1, 0) are run through ByteArena::read_n, Encoder/Decoder::read_n, encode_read and decode_read. Number and sizes of reader calls, returned bytes or error kind, hand-back of the unread tail, liveness of the returned slice, absence of leaks and the codec output after finish are judged against the statement on the trace that actually happened: at most max_attempts calls, each asking for at least 1 and at most the bytes still missing, no call after end of file / a non-interrupt error / the count was reached, no stop before one of those or the attempt budget, result = bytes delivered or the last error.",
    note="Readers that violate Read's contract are out of scope; codec output is compared with the reference encoder in mc_core::refcodec.",
)

IOVEC_COMMON = "Each history is executed from scratch on the real OwningIovec next to a Vec<Cell> reference model (every prefix of every history is itself judged): every read-side view, total_size/len/is_empty and every consuming return value is compared with the model, every exposed slice must lie in a live arena chunk (registry + quarantine hook H1) or a caller buffer, then all placeholders are backfilled, everything is drained and dropped and the live chunk/byte counters must be back to their initial values."
CHECKS["C03"] = dict(
    engine="iovec_mc",
    category="model_checking",
    design="DESIGN.md section 4, C03",
    technique="stateless model checking: exhaustive DFS over all operation histories (28-op alphabet, depth-bounded, fresh + non-initial starts) of the real OwningIovec against a reference pipe model",
    text="All histories over a 28-op producer/consumer alphabet (size-adaptive, copied, borrowed, anchored pushes around the 64/256-byte thresholds, extend, placeholder register/backfill, clear, take, arena flush/swap/exhaustion, consume/advance/pop/Read with partial amounts) to depth 5 (quick) / 6 (thorough), a 14-op reduced alphabet (including an AnchoredSlice taken from the read side, held across clear()/take() and pushed back later) to depth 6 / 8, three construction paths, five non-initial seed states, non-initial states with 6-12 placeholders in flight (eight filled out of order), and a 12-op chunk-end alphabet F to depth 6 / 7 (copies that leave 1 or 4 bytes in the current arena chunk, then copies and placeholders of 1 and 70 bytes, rejected wrong-size backfills). " + IOVEC_COMMON,
    note="Histories longer than the depth bound from states no seed reaches, payload sizes other than the threshold set and arena chunks beyond the first sizes of the growth sequence are not covered.",
)
CHECKS["C04"] = dict(
    engine="iovec_mc",
    category="model_checking",
    design="DESIGN.md section 4, C04",
    technique="stateless model checking: exhaustive DFS over all register/backfill/push/consume histories (17-op alphabet, depth 7-8) of the real OwningIovec against a reference model with marked holes",
    text="All histories over a 17-op backpatch alphabet (16 single-pipe ops to depth 7 / 8, with the clone-while-pending op to depth 6 / 7; a clone taken while placeholders are pending, whose views must hide them too; non-initial states with 5-7 placeholders in flight; copies sized to leave exactly 4 bytes in the current arena chunk so that placeholders straddle a chunk end, placeholders of size 0/1/2 with up to 5 in flight, backfill of the 1st/2nd/3rd/last pending in any order, merging and non-merging pushes, cache flush, slice and byte consumption) to depth 7 (quick) / 8 (thorough), plus seeds, plus the chunk-end alphabet F (70-byte placeholders straddling a chunk end; backfill_or_panic with a value of the wrong size, which must panic and leave the placeholder pending) to depth 6 / 7. The visible length may never reach the earliest hole, iovs/flatten/stable_consumer succeed exactly when no hole is pending, and after all backfills everything is consumable with the backfilled values. " + IOVEC_COMMON,
    note="More than 5 placeholders in flight and placeholder sizes above 2 are not enumerated.",
)
CHECKS["C05"] = dict(
    engine="iovec_mc",
    category="model_checking",
    design="DESIGN.md section 4, C05",
    technique="stateless model checking: exhaustive DFS over histories with clones, drops, arena swaps and held AnchoredSlices; every exposed address range checked against a live-chunk registry with quarantine",
    text="All histories over a 26-op alphabet (38 ops at one depth less) that adds clone, drop of either side, arena take/swap/flush/exhaustion, and AnchoredSlices held un-pushed across steps (split, skip, drop_suffix, clone, push, drop) to depth 5 (quick) / 6 (thorough), plus seeds. After every step every exposed slice and every held AnchoredSlice must lie inside a chunk that is in the live registry (freed chunks are quarantined and poisoned, so the test is exact), contents must match the model, and pure copies must be pairwise disjoint. " + IOVEC_COMMON,
    note="Liveness means membership in the chunk registry (hook H1), not compiler provenance; caller buffers are static in the harness.",
)
CHECKS["C20"] = dict(
    engine="iovec_mc",
    category="model_checking",
    design="DESIGN.md section 4, C20",
    technique="stateless model checking: all prefixes x {clone, take} x all two-sided suffixes on the real OwningIovec, one reference model per side",
    text="Every prefix over a 9-op alphabet to depth 3, then clone (when no placeholder is pending) or take, then every suffix over 19 ops addressed to either side (pushes that merge, register/backfill, consume, clear, drop, flush, and `B.clone_from(&A)` overwriting a copy that may have placeholders of its own pending) to depth 3 (quick) / 5 (thorough). Each side has its own reference model, so any operation on one side that changes the other is a mismatch; after take the source must be empty and usable and the taken value must complete all outstanding backfills. " + IOVEC_COMMON,
    note="More than two live copies and clones taken while placeholders are pending (excluded by the statement) are not explored.",
)

HCOBS_COMMON = "Oracles on every run: output equals an independent canonical reference encoder (literal limits 252 / 64008 / radix 253, not imported from hcobs), no FE FD anywhere in drained ++ finished output, the real decoder returns the input, decoder verdict equals a reference decoder, bytes consumable after each call form a prefix of the final output, drain return values are exact, encoder lag <= one arena chunk + 64008 + 2 and decoder lag zero, every exposed slice lies in a live chunk or a caller buffer, no arena leak."
CHECKS["C01"] = dict(
    engine="hcobs_mc",
    category="model_checking",
    design="DESIGN.md section 4, C01",
    technique="bounded-exhaustive enumeration of inputs x segmentations x input-method masks on the real Encoder and Decoder (tiny limits via hook H2, production limits via the public API), reference codec as oracle",
    text="Tiny limits (1,1), (2,3), (3,5): every input over {FE, FD, 00, FF, FC} up to length 5 (quick) / 6 (thorough) and over 4 letters up to 6 / 8, every segmentation into <= 3 pieces with all 27 borrow/copy/anchored masks plus read, and the canonical stream fed to the decoder under every 3-way segmentation x 4 methods. Production limits: pre . x^k . h . p . x^t with k at every distance within 3 / 8 of 0, 64, 256, 4096 and the chunk limit (252 after nothing, 64008 after a full first chunk or a stuff sequence), every subset of cuts at part boundaries and inside p, 8 method masks (three of them with a rotating schedule over all 10 drain operations, since the statement covers incrementally drained output), decoded back under cuts around every header; alignment family x^a . q . x^b for all q over {FE, FD, FF, 00} up to length 4; a 3.3 MiB input through encode_read / encode_copy / encode and its canonical stream through decode_read / decode_copy in calls of 64 KiB, 700 000, 1 MiB - 1, 1 MiB, 1 MiB + 1 and 2 MiB bytes; 2 MiB (quick) / 32 MiB (thorough) encoder -> decoder streams for every single call size x method x payload shape, drained after every call; tiny limits: every 2-way segmentation x {borrow, copy} x 16 drain pairs (round trip under incremental draining). State-space closure at the tiny limits: a BFS over the encoder's (chunk limit, bytes in chunk, held-back flag) and the decoder's state reaches a fix-point, and from every reachable state every next piece of length 1..3 and follow-up are fed as separate calls by every method and compared in full, so every reachable (state, next piece) transition at these limits is exercised. " + HCOBS_COMMON,
    note="Strings longer than the bounds with several interacting boundaries at production limits are covered only through the scaled-down limits; bytes outside the alphabets matter only through comparison with FE / FD.",
)
CHECKS["C02"] = dict(
    engine="hcobs_mc",
    category="model_checking",
    design="DESIGN.md section 4, C02",
    technique="bounded-exhaustive enumeration of inputs x segmentations x method masks x drain schedules on the real Encoder; stuff-freedom, split-independence (equality with a single-call reference) and length bound checked on every output; exhaustive find_stuff_sequence",
    text="Same input families as C01 with, in addition, every 2-way segmentation x all 36 pairs of drain operations (nothing, consume 1 / all slices, advance 1 / all bytes, read 2 bytes; the production families also read into a 100-byte buffer) and x 16 pairs of over-asking drains (consume one slice more than is stable, advance 1 / 2 bytes more than is stable, Read into a buffer larger than everything consumable) so that the early/late split of the output is enumerated and a consumer asking for too much gets only what is consumable; every output is compared with the single-call canonical encoding (split-, method- and drain-independence), searched for FE FD, and checked against len + 1 + 2*ceil(len/64008). hcobs::find_stuff_sequence is compared with a two-line reference on all strings over 5 letters up to length 9 / 10 and at every alignment 0..24. " + HCOBS_COMMON,
    note="The length bound is checked on the enumerated lengths (every length class around both limits), not on all lengths.",
)
CHECKS["C07"] = dict(
    engine="hcobs_mc",
    category="model_checking",
    design="DESIGN.md section 4, C07",
    technique="bounded-exhaustive enumeration: encoder outputs vs an independent canonical encoder; decoder accept set on ALL byte strings over a 10-letter alphabet (tiny limits) and on the whole 1-byte / 2-byte header space (production limits) vs a reference decoder",
    text="Encoder: every output of the C01 families is compared byte-for-byte with a reference encoder that hard-codes 252 / 64008 / 253. Decoder, tiny limits: ALL byte strings over {0,1,2,3,5,6,FC,FD,FE,FF} up to length 6 (quick) / 7 (thorough), whole, under every 2-way split x {borrow, copy}, every 3-way split and with zero-length calls between and after the pieces: accept/reject and output must equal the reference decoder and must not depend on the segmentation. Decoder, production limits: all 256 first-header bytes and, after an empty first chunk, all 65 536 second-header byte pairs, each with the body a lenient reading would expect (short by one, exact, exact + terminators), whole and split inside / after the header; truncations of a 3-chunk message around every header; out-of-radix header bytes after long borrowed chunks. Big blocks: a 3.3 MiB input and its canonical stream in calls of 64 KiB, 700 000, 1 MiB - 1, 1 MiB, 1 MiB + 1, 2 MiB through every input method (the arena's largest chunk size class is 1 MiB). " + HCOBS_COMMON,
    note="Interoperability is judged against the reference codec written here from the format description.",
)
CHECKS["C09"] = dict(
    engine="hcobs_mc",
    category="model_checking",
    design="DESIGN.md section 4, C09",
    technique="exhaustive enumeration of drain schedules (operation histories of feed / drain calls) on the real Encoder and Decoder at tiny and production limits, plus long periodic unrollings with a full drain after every call; prefix and lag invariants checked after every call",
    text="Every input of the tiny-limit families with every 2-way segmentation x all 36 drain-operation pairs on both encoder and decoder (borrow, copy, anchored and PREFETCHED anchored input: the arena read for a piece is issued before the previous piece is drained, so an AnchoredSlice is held across a feed and a drain), every 3-way segmentation of prefetched pieces x 6 drain pairs, over-asking drains, the production boundary family with rotating drain operations, and every call-size schedule of length <= 2 (quick) / 3 (thorough) over {1, 100, 1000, 5000, 70000, 1 MiB+1} x {copy, borrow, encode_read} x 4 payload shapes x 3 drain APIs x {encoder, encoder->decoder} (plus small-call schedules through encode_read(64 KiB, one attempt) from a reader that fails with EINTR before every short delivery) streamed for 8 MiB (quick) / 64-256 MiB (thorough). After every call: what is consumable extends what was drained to a prefix of the final output, each drain returns exactly what it removed, encoder lag <= largest arena chunk seen + 64008 + 2, decoder lag = 0. " + HCOBS_COMMON,
    note="Unbounded stream length is approached by periodic unrolling; an aperiodic schedule that drifts for longer than the unrolling is not covered.",
)
CHECKS["C10"] = dict(
    engine="iovec_mc+hcobs_mc",
    category="model_checking",
    design="DESIGN.md section 4, C10",
    technique="exhaustive enumeration of operation histories ending in every drop order (leak clause) and of streaming schedules with per-call footprint bounds and a chunk-count plateau test (bounded-footprint clause)",
    text="Leak clause: every history of the C05 alphabet (clones, takes, arena swaps, held AnchoredSlices, explicit drops of either side) to depth 5 / 6, and every run of the HCOBS families, ends by dropping everything (two drop orders) and the process-wide live chunk / byte counters must return to their initial values. Drop points: every sequence of copied calls over {5000, 600 000, 1 MiB + 1} bytes up to length 5 / 7 with a full drain after each, then everything dropped, each history in a fresh process (a leak may hide in process-global state). Streaming clause: every schedule of the C09 streaming grid, including the read-fault schedules (a failed read must give its arena allocation back); after every call live arena bytes <= 6 (chained 8) x max(1 MiB, largest call), peak live chunk count in the last third of the stream <= first third + 2 and never above 16, no leak after drop.",
    note="Workers are single-threaded processes so the global counters are exact. 'Unbounded' is periodic unrolling to 16-256 MiB. Live bytes are bounded absolutely; growth is judged on the chunk count because the arena's own chunk size legitimately ramps from 4 KiB to 1 MiB.",
)
CHECKS["C05"]["engine"] = "iovec_mc+hcobs_mc"
CHECKS["C05"]["text"] += " The same liveness check runs on every slice exposed by Encoder / Decoder consumers over the HCOBS input families (anchored input included), and after decode errors followed by an arena flush."

STREAM_FAMILIES = "Streams: (i) ALL byte streams over {FE, FD, 00, 01, 61, FF} up to length 6 (quick) / 8 (thorough); (ii) crash histories: every log of <= 2 (quick) / 3 (thorough) records from 7 payloads (empty, 'a', FE FD, 251 / 252 / 253 bytes, FE FE FE), intact, truncated at every byte with and without a restarted writer, and with single bytes replaced by FE / FD / FF / 00; alignment streams x^a . q . x^b; (iv) block and buffer edges: block sizes 4090..4098 x first records whose encoding is B-5..B+2 bytes (valid and torn) followed by a delimiter and a second record, so the delimiter's FE meets every position around the end of a read and of the reader's first arena chunk; FE FD within 3 bytes of 4096 / 8192 / 16384 / 32768 / 65536 / 131072 and at 64004..64016 of a stuff-free filler (alone and after a short first chunk) under block sizes 65536, 70000 and the 512 KiB default; ~2.2 MiB streams with FE FD around 1 MiB and 2 MiB under block sizes 1 MiB - 1, 1 MiB, 1 MiB + 1 (the arena's largest chunk size class). Block sizes 0, 1, 2, 3, 4, 5, 8, 64 (+ 255, 256 and the 512 KiB default on logs). Reader schedules: full reads, always-1, always-2, alternate 1/3, and every single deviation (a 1-byte read, or a burst of 1 / 3 / 40 Interrupted results) at every reader call (every pair for length <= 4 in the thorough tier)."
CHECKS["C06"] = dict(
    engine="stream_mc",
    category="fault_enumeration",
    design="DESIGN.md section 4, C06",
    technique="exhaustive enumeration of byte streams and crash/corruption histories x block sizes x reader deviation schedules (short reads, EINTR bursts; deviation-bounded) x judges x client behaviours (peeking, consuming all / half of each returned record) on the real StreamReader, reference record list as oracle",
    text=STREAM_FAMILIES + " Judges: (inf, none), (1, none), (0, none), a custom judge that skips the first record, and (inf, L) for every offset limit L <= len+1. The sequence of (decoded bytes, byte range) until the first None must equal the reference (left-to-right FE FD split, reference HCOBS decoder, size and offset rules), three more calls must return None, last_sentinel_offset must be exact, everything shown to the judge or returned must lie in live arena memory, nothing may panic or leak.",
    note="Hard I/O errors (DESIGN observation O1) and custom judges that skip on an empty range are outside the enumerated space; streams longer than the bounds only through family (ii).",
)
CHECKS["C08"] = dict(
    engine="stream_mc",
    category="fault_enumeration",
    design="DESIGN.md section 4, C08",
    technique="exhaustive enumeration of byte streams x block sizes x reader deviation schedules x arena states on the real StreamChunker::pump, tiling oracle",
    text=STREAM_FAMILIES + " Arena states: fresh (client holding every Data chunk, and client dropping each chunk before the next pump), 1..9 bytes remaining in the current chunk (so the carried-over byte of a held-back FE meets every small remainder), shared with a live iovec. Up to Eof the Data slices and sentinels must concatenate to the stream, each reported offset must be the absolute end of its chunk, no Data chunk may be empty or contain FE FD, FE|FD may not straddle two consecutive Data chunks, Eof only at the real end and sticky, every Data slice must stay alive and intact while held (also after the arena flushes its cache), no leak.",
    note="Hard I/O errors are outside the enumerated schedules.",
)
CHECKS["C05"]["engine"] = "iovec_mc+hcobs_mc+stream_mc"
CHECKS["C05"]["text"] += " StreamChunker chunks, everything the StreamReader shows its judge and every returned record are checked the same way over the crash-history streams."
CHECKS["C10"]["engine"] = "iovec_mc+hcobs_mc+stream_mc"
CHECKS["C10"]["text"] += " StreamReader: 8 MiB (quick) / 48 MiB (thorough) streams of seven kinds (empty, invalid, 1-byte, 300-byte, 5000-byte records, delimiter-free invalid garbage, a delimiter-free endless record the judge declares too big) x block sizes {4096, 65536, default} with the same footprint and chunk-plateau bounds, and a leak check after every StreamReader / StreamChunker run."

CHECKS["C13"] = dict(
    engine="abt_loom+abt_freeze",
    category="model_checking",
    design="DESIGN.md section 4, C13",
    technique="stateless model checking with loom 0.7.2 (DPOR over thread interleavings + C11 reads-from choices, pre-emption bounded) of the real atomic_base_time.rs compiled against loom-backed stand-ins (hook H3); plus exhaustive enumeration of all sequential operation histories (depth-bounded, incl. panicking updates that poison the writer lock) of the real AtomicBaseTime against a reference model",
    text="Six harnesses over the real source (writer lapping both slots against a reader taking two snapshots; update vs try_update vs reader; three updates vs two readers; an older update that must be ignored; recency through a release/acquire flag; two blocking writers vs a reader) are explored exhaustively by loom at pre-emption bound 2 (quick) and 2, 3 and unbounded (thorough): every schedule at atomic-operation granularity and, for every atomic load, every store the C11 release/acquire/relaxed rules allow it to read. In every execution each snapshot must be a whole pair passed to an accepted update or the epoch pair (the crate's own voucher assertion also fires on a torn pair), at least as recent as every update that happens-before it, non-decreasing per thread; older updates are ignored; the final value is the maximum accepted; snapshot takes no lock. Sequential clause (real std types): all histories up to length 6 (quick) / 7 (thorough) over 18 ops (update / try_update of six base times, two of them more than 2^63 ms above the others, update / try_update with a voucher that does not match, which panics inside the writer lock and poisons it, snapshot, sequence) against a three-line reference model: the newest accepted pair is what snapshot returns, older updates are ignored, a poisoned lock costs only the next try_update its turn.",
    note="loom's model of C11 (no load buffering / out-of-thin-air), mutex poisoning not modelled by loom (covered by the sequential clause on std's mutex), <= 3 threads besides main and <= 3 operations per thread; runs exploring fewer than 8 executions are refused as vacuous.",
)
CHECKS["C18"] = dict(
    engine="abt_freeze+abt_loom",
    category="model_checking",
    design="DESIGN.md section 4, C18",
    technique="explicit enumeration of suspension schedules: real OS threads running the real AtomicBaseTime (hook H3 observer as step hook), each writer held after exactly k of its atomic/lock steps, observer optionally paused mid-operation while another writer completes, then run alone; plus the loom harnesses' per-snapshot lock/load counters",
    text="About 25 000 scenarios: start state (1 or 2 prior updates, writer lock poisoned or not) x observer in {snapshot, snapshot twice, try_update(newer), try_update(+1 000 000 ms), try_update(older), sequence} (and four try_update calls in a row) paused after each of its own steps (or not started) x {no / one writer completing a whole update meanwhile} x a writer in {update(newer), update(older), try_update(newer)} suspended after each of its steps 0..11 (before lock, holding the lock before/between/after each load and store, finished), or two writers at every pair of steps (including one parked in lock() behind the other); then the observer runs alone. It must return within 64 of its own steps, must never be found inside lock() behind a suspended writer, snapshot must perform no lock operation and only as many loads as completed writes justify, try_update never a blocking lock behind a holder, false whenever a suspended writer holds the lock. The loom harnesses of C13 additionally assert 0 lock operations and a bounded number of loads per snapshot under real interleavings.",
    note="Step points are the stand-in operations of hook H3; lock hand-off is decided by the controller (virtual parking), never by an OS race, so every scenario is deterministic. More than two suspended writers are not enumerated.",
)

CHECKS["C18"]["text"] += " Clause (ii): nfs_voucher::get_base_time_unlocked and observe_file_time are run alone while a thread is suspended after each of the first 13 steps of add_trusted_path's update of the module-wide base time (holding its writer lock), in a fresh process and after a completed registration, with and without a second add_trusted_path completing while the first is suspended (104 scenarios, each in its own child process because the module state is process-global): no lock operation, no waiting, at most 4 loads. Second shape: a refreshing get_base_time suspended after each of its first 14 steps (inside its blocking update it holds the writer lock and the read guard on the table of trusted paths), an add_trusted_path queued behind that guard, then get_base_time_unlocked with a now one hour ahead must return within 2 s without lock operations (a reader-writer lock admits no new reader once a writer is queued)."
CHECKS["C19"] = dict(
    engine="vtime_mc",
    category="model_checking",
    design="DESIGN.md section 4, C19",
    technique="exhaustive enumeration of call histories (16-op alphabet, depth 3-4) of the real nfs_voucher module, each history in a fresh child process against real files on two real devices, invariant checked after every call",
    text="All sequences to depth 3 (quick) / 4 (thorough) over {add_trusted_path, observe a stale / a newer trusted file / an untrusted file, maybe_observe (trusted / untrusted), scan_base_time, get_base_time with now = real now / base+100 ms / base+10 s, get_base_time_unlocked, sleep 120 ms (lets the 100 ms throttle expire), touch the stale file, replace the trusted path by a symlink onto the other device, register the other device too, a registration on the other device that is refused at its validating touch (a world-writable file the caller does not own, called with nobody's effective uid) and must leave nothing behind; a registration through the retargeted symlink trusts the device of the file that is opened, not the link's}; the trusted role alternates between tmpfs (/dev/shm) and the root file system; after a registration, all sequences over the 8 observing ops one level deeper (answers that depend on what was observed before). After every call the child reads the base time and stats its files: the base never decreases, changes only to the change-time of a file on a trusted device (or of the path being registered by that very call), untrusted observations report nothing, every pair returned passes VouchedTime::check.",
    note="Needs two writable devices (exits 2, no verdict, otherwise). Change-times come from the kernel's coarse clock; the harness waits 12 ms after each call so later touches are strictly later. The oracle does not depend on which throttle branch was taken. Concurrency inside nfs_voucher is out of scope.",
)

ALL = ["C%02d" % i for i in range(1, 21)]

NOT_YET = "check not built yet (work in progress; see DESIGN.md section 4 for the planned bounded-exhaustive formulation)"


# Families added in round 7 (periodic unrollings, two live instances, provided trait methods, ...):
# appended to the texts above.
ROUND7 = {
    "C01": " Two Encoders (then two Decoders on the two canonical streams) alive at once and fed alternately, at tiny and production limits, must each produce the result of their own input; inputs fed in 1100 .. 2100 pieces (output of well over 1024 undrained slices) round-trip.",
    "C02": " Two Encoders alive at once and fed alternately must each produce the canonical output of their own input; inputs fed in 1100 .. 2100 pieces; the length bound is checked for EVERY input length 0 .. 129 016 (quick) / 257 032 (thorough) of plain and of FE bytes.",
    "C03": " Periodic unrollings: every cycle of up to 3 (thorough: 4 on the smaller alphabets) ops repeated 16 / 40 times (disabled ops skipped), full oracle after every repetition, over alphabets A, B, F and the reduced one; long unrollings of 1100 / 2200 repetitions over an 8-op alphabet (well over 1024 slices buffered); the provided methods of the Read trait (read_to_end, read_exact, read_vectored, bytes) are consumer ops.",
    "C04": " Periodic unrollings (every cycle of up to 3 / 4 ops x 16 / 40 repetitions) over alphabets B and F; a reduced alphabet B plus the byte-stream views (Read::read, read_to_end, read_vectored, bytes) to depth 6 / 7 and in cycles.",
    "C05": " Periodic unrollings (every cycle of up to 3 / 4 ops x 16 / 40 repetitions) over alphabet C and the extended anchored-memory alphabet; two StreamReaders alive at once and asked for records alternately.",
    "C06": " Two StreamReaders alive at once, each over its own stream (every stream up to length 4 / 5 against five fixed ones, six block sizes), asked for records alternately, must each return the records of their own stream.",
    "C07": " Two codecs of a kind alive at once and fed alternately; inputs and canonical streams fed in 1100 .. 2100 pieces; exact output length for every input length 0 .. 129 016 / 257 032 of plain and of FE bytes.",
    "C10": " Periodic unrollings (every cycle of up to 3 / 4 ops x 16 / 40 repetitions) end in the same leak accounting; one history in three ends with placeholders still pending (the iovecs are dropped, the caller keeps the Backref tokens a moment longer: tokens own nothing).",
    "C11": " The iterator handed out by MessageView::iter is exercised through every provided Iterator method (size_hint, count, last, nth, fold, skip, step_by, after 0, 1, 2, N-1, N calls of next), called on the iterator itself.",
    "C12": " On every accepted borrowed view the iterator of iter() and of tags() is exercised through every provided Iterator method, and tags_match_exactly is compared with sequence equality for patterns equal / shorter / longer / changed, carried by iterators with exact, bounded and unbounded size hints.",
    "C13": " Sequential clause: every history of 2..4 (thorough 6) ops is also run on TWO instances used alternately by one thread (each against its own model, the idle one re-read after every step of the other), and every cycle of up to 3 ops is repeated 40 / 100 times on one instance and on two.",
    "C15": " Periodic unrollings: every cycle of up to 4 / 5 ops over the 16-op alphabet repeated 40 / 100 times on one object (three backings, From<container> starts of 3 and 1024 items), and the same one op shorter with TWO deques alive and used alternately, each against its own model.",
    "C16": " Periodic unrollings: every cycle of up to 3 / 4 ops over 22 ops (incl. removals by rank from the back and the middle, and push_tight = the smallest valid key, which lies below keys that left earlier) repeated 30 / 60 times on one object, and one op shorter on TWO deques used alternately; the iterator of iter() goes through every provided Iterator method at the end of every re-executed history.",
    "C18": " Long observers: 300 snapshots / 300 try_update calls in a row on one thread against every suspension point of one writer. An observer (or a try_update writer) found asleep in the kernel for a second without being held by the step hook is reported as waiting on an uninstrumented primitive; a violation that process-global state hides from a second in-process run is confirmed in a fresh process.",
    "C19": " The thread's own private AtomicBaseTime (brought to sequence number 1, 2 or 3 with far-future pairs and read) is an environment event: before any module call (all sequences to depth 2 / 3 after it) and among the observing ops after a registration.",
    "C20": " Periodic unrollings of the two-sided suffix alphabet (every cycle of up to 3 ops x 16 / 40 repetitions) after two clone points.",
}
for _pid, _extra in ROUND7.items():
    CHECKS[_pid]["text"] = CHECKS[_pid]["text"].rstrip() + _extra


# Families added for round 8 (objects moving between threads, marathons, data values, caller code that
# misbehaves in allowed ways, environment): appended to the texts above.
ROUND8 = {
    "C01": " (FE FD)^n for n around 2^8 and 2^16 (that many chunks closed by one encoder); pipelined read-ahead (the read for piece i+1 issued before the drain after piece i) under the round-trip focus on both sides; one codec whose calls come from two threads in turn; a reader that panics once inside encode_read / decode_read (caught), then a retry.",
    "C02": " Dense-chunk inputs (FE FD)^n for n around 2^8 and 2^16; one encoder fed from two threads in turn; a caught reader panic followed by a retry.",
    "C03": " Every second op applied on a freshly spawned helper thread (the objects are Send) to depth 3 / 4 (alphabet A) and 4 / 5 (reduced alphabet); marathons of 70 000 repetitions of every cycle of up to 2 ops over 7 ops; payloads that are runs of 0xFC (the arena's own poison value), 0x00 and 0xFF; a rare-entry-point alphabet (provided Read methods, extend with an iterator that panics midway) to depth 5 / 6 and in cycles. Runaway executions are bounded: the address space of every worker is capped and a watchdog ends an execution that does not finish within two minutes; both deaths are replayed in a fresh child and become the verdict.",
    "C04": " Backfills whose bytes equal the placeholder's own pattern; eight violations per worker end its share (a violating execution can be very slow).",
    "C05": " Every second op on a helper thread (alphabet C to depth 3 / 4, extended anchored alphabet to 4 / 5); marathons of 70 000 repetitions over 7 anchored-memory ops; extend with an iterator that panics midway.",
    "C07": " Dense-chunk inputs; one codec used from two threads in turn; a caught reader panic followed by a retry.",
    "C08": " A transient end of file (the reader answers Ok(0) once at every call index, data later) for streams up to length 5: the tiling goes on after the Eof it justifies.",
    "C09": " Dense-chunk inputs in copied 4096-byte calls drained after each; twin codecs, calls from two threads, a caught reader panic followed by a retry.",
    "C10": " Leak accounting with every second op on a helper thread (alphabet C to depth 3 / 4); streaming through blocks of 1000 / 5000 / 70 000 bytes read into a SEPARATE I/O arena and handed over with encode_anchored (the encoder's own arena then only holds headers).",
    "C11": " Value CONTENTS: values of 7 .. 200 bytes made of zeros / 0xFF with and without a non-zero first byte, last byte or last (n mod 8) bytes, 4 leaf kinds, 3 constructors, 2 sinks.",
    "C13": " A violation that neither a second run in the process nor the history alone in a fresh process shows is confirmed as the pair (history the worker ran just before, this history) in a fresh process: instances that no longer exist can leave traces in a static or a thread-local.",
    "C14": " Calendar landmarks as bases and as local times: the seconds around two leap-second insertions, leap days, 2100-02-28/03-01, month and year ends, the 2^31-second rollover.",
    "C15": " Marathons: every cycle of up to 2 / 3 ops repeated 70 000 times on one deque (from empty and from 3 and 6 items), oracle after every op.",
    "C16": " Marathons: every cycle of up to 2 ops over 9 ops repeated 70 000 times.",
    "C17": " A second encode_read / decode_read on the same codec after the first one ended in end of file, an error or a short read (the reader now has data: it must be called and its bytes used); mid-size counts 65 .. 300 x 5 scripts x 5 arena states, the arena letting go of its chunk right after the read and the encoder copying 14 000 more bytes before the output is compared.",
    "C18": " Base times at the top of the u64 range (far beyond year 9999) and an observer thread that has just read another, more advanced AtomicBaseTime, against one suspended writer at every step; threads that never finish after the teardown are abandoned instead of joined (a spinning observer is the violation, not a reason to hang).",
    "C19": " The trusted path registered by a relative name followed by a change of current directory to the other device, where the same name designates a newer file (all sequences to depth 2 / 3 after it); every file's modification time is set explicitly, hours ahead of or decades behind its change-time.",
    "C20": " Payload values include runs of 0xFC, 0x00 and 0xFF from the first pushes of a history on.",
}
for _pid, _extra in ROUND8.items():
    CHECKS[_pid]["text"] = CHECKS[_pid]["text"].rstrip() + _extra


def main():
    checks = []
    for pid in ALL:
        if pid not in CHECKS:
            continue
        c = CHECKS[pid]
        checks.append({
            "property_id": pid,
            "quick_cmd": "./check %s quick" % pid,
            "thorough_cmd": "./check %s thorough" % pid,
            "evidence_file": "/verif/evidence/%s.json" % pid,
            "replay_cmd_template": "./check %s --replay {path}" % pid,
            "engine": c["engine"],
            "level_claimed": {
                "category": c["category"],
                "text": c["text"],
                "design_ref": c["design"],
            },
            "level_note": c["note"],
            "technique": c["technique"],
        })
    engines = {}
    for pid, c in CHECKS.items():
        for e in c["engine"].split("+"):
            engines.setdefault(e, []).append(pid)
    manifest = {
        "version": 1,
        "setup_cmd": "./check --build",
        "hooks": {
            "guard": "cargo feature pkhuong_woodpile_verif (crates owning_iovec, hcobs, vouched_time); off by default",
            "enable": "the engines under /verif/mc depend on the /repo crates by path with features = [\"pkhuong_woodpile_verif\"]",
            "baseline_off_cmd": "cd /repo && cargo nextest run --workspace --no-fail-fast --tool-config-file pb:/w/lib/nextest.toml --profile pb --test-threads 8 --offline || cargo test --workspace --no-fail-fast --offline",
            "source_commits": HOOK_COMMITS,
            "add_only": True,
        },
        "engines": [
            {
                "name": name,
                "path": "/verif/mc/%s" % name,
                "serves_properties": sorted(props),
                "kind_free_text": "Rust harness over the real crates (path dependencies on /repo), exhaustive bounded exploration, 16 worker processes",
            }
            for name, props in sorted(engines.items())
        ],
        "checks": checks,
        "notes": "All checks are bounded-exhaustive explorations of the real code (model checking family); see DESIGN.md (section 8 = as built). Exit 2 = machinery failure (no verdict). Six genuine defects were repaired by fix: commits in /repo (82bc7df, d1c40af, 04d0781, 064d609, 3d944fa, 0b9be53; see known_findings.txt).",
        "not_applicable": [
            {"property_id": pid, "reason": NOT_YET} for pid in ALL if pid not in CHECKS
        ],
    }
    with open(os.path.join(ROOT, "MANIFEST.json"), "w") as f:
        json.dump(manifest, f, indent=1)
        f.write("\n")
    print("wrote MANIFEST.json with %d checks" % len(checks))


if __name__ == "__main__":
    main()
