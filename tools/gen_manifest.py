#!/usr/bin/env python3
"""Regenerates /verif/MANIFEST.json from the table below (single source of truth)."""
import json
import os

ROOT = os.path.dirname(os.path.dirname(os.path.abspath(__file__)))

HOOK_COMMITS = [
    "9da2e4b verif hook H1: live-chunk registry and quarantine in owning_iovec",
    "866e0b6 verif hook H2: HCOBS codec entry points with caller-chosen chunk limits",
    "6e7f200 verif hook H3: observable stand-ins for AtomicBaseTime's atomics and mutex",
]

# id -> dict(engine, category, text, note, technique, design)
CHECKS = {
    "C15": dict(
        engine="deque_mc",
        category="model_checking",
        design="DESIGN.md section 4, C15",
        technique="explicit-state model checking of the real SlidingDeque: BFS closure over abstract shapes + exhaustive depth-bounded DFS of all op sequences, VecDeque reference model",
        text="Every operation sequence over a 14-op alphabet up to depth 7 (quick) / 8 (thorough) is executed on the real SlidingDeque (Vec, SmallVec<[u32;2]> and an instrumented Vec backing, from empty and From<container> starts, with and without debug assertions) and compared step by step with a VecDeque; in addition a breadth-first closure over the abstract state (physical length, consumed prefix) with <= 8 live elements reaches a fix-point, which by data independence covers unbounded histories within that size. The space bound (consumed prefix <= half the backing length) is observed directly through the instrumented backing.",
        note="Assumes the deque's control flow does not depend on element values (no Ord/Eq bound); logical lengths > 8 are not enumerated; reference model is std VecDeque.",
    ),
    "C16": dict(
        engine="deque_mc",
        category="model_checking",
        design="DESIGN.md section 4, C16",
        technique="explicit-state model checking of the real SortedDeque: BFS closure over (physical length, consumed prefix, tombstone flags) + exhaustive depth-bounded DFS, BTreeMap reference model",
        text="Every sequence of push / push-erased / pop_first / pop_last / clear / remove-by-rank / remove-absent up to depth 7 (quick) / 8 (thorough) is executed on the real SortedDeque for both item conventions and three backings; after every op iteration order, first/last/is_empty and find() of every key ever pushed, its absent neighbour and one key above are compared with a BTreeMap, and out-of-order pushes must panic. A closure over tombstone-flag shapes with <= 7 physical items reaches a fix-point.",
        note="Item types whose Ord changes under erasure relative to other keys (DESIGN observation O3) are outside the harness; > 7 physical items not enumerated.",
    ),
}

ALL = ["C%02d" % i for i in range(1, 21)]

NOT_YET = "check not built yet (work in progress; see DESIGN.md section 4 for the planned bounded-exhaustive formulation)"


def main():
    checks = []
    for pid in ALL:
        if pid not in CHECKS:
            continue
        c = CHECKS[pid]
        checks.append({
            "property_id": pid,
            "quick_cmd": "./check %s quick" % pid,
            "thorough_cmd": "./check %s thorough" % pid,
            "evidence_file": "/verif/evidence/%s.json" % pid,
            "replay_cmd_template": "./check %s --replay {path}" % pid,
            "engine": c["engine"],
            "level_claimed": {
                "category": c["category"],
                "text": c["text"],
                "design_ref": c["design"],
            },
            "level_note": c["note"],
            "technique": c["technique"],
        })
    engines = {}
    for pid, c in CHECKS.items():
        for e in c["engine"].split("+"):
            engines.setdefault(e, []).append(pid)
    manifest = {
        "version": 1,
        "setup_cmd": "./check --build",
        "hooks": {
            "guard": "cargo feature pkhuong_woodpile_verif (crates owning_iovec, hcobs, vouched_time); off by default",
            "enable": "the engines under /verif/mc depend on the /repo crates by path with features = [\"pkhuong_woodpile_verif\"]",
            "baseline_off_cmd": "cd /repo && cargo nextest run --workspace --no-fail-fast --tool-config-file pb:/w/lib/nextest.toml --profile pb --test-threads 8 --offline || cargo test --workspace --no-fail-fast --offline",
            "source_commits": HOOK_COMMITS,
            "add_only": True,
        },
        "engines": [
            {
                "name": name,
                "path": "/verif/mc/%s" % name,
                "serves_properties": sorted(props),
                "kind_free_text": "Rust harness over the real crates (path dependencies on /repo), exhaustive bounded exploration, 16 worker processes",
            }
            for name, props in sorted(engines.items())
        ],
        "checks": checks,
        "notes": "All checks are bounded-exhaustive explorations of the real code (model checking family); see DESIGN.md. Exit 2 = machinery failure (no verdict).",
        "not_applicable": [
            {"property_id": pid, "reason": NOT_YET} for pid in ALL if pid not in CHECKS
        ],
    }
    with open(os.path.join(ROOT, "MANIFEST.json"), "w") as f:
        json.dump(manifest, f, indent=1)
        f.write("\n")
    print("wrote MANIFEST.json with %d checks" % len(checks))


if __name__ == "__main__":
    main()
